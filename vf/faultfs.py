"""E4 -- instrumented fsspec filesystem: call recorder, fault injector, stale listings, yield points.

VerifFS is a real LocalFileSystem.  Every OUTERMOST public call is numbered and logged; at chosen
call numbers it can
  * raise OSError / FileNotFoundError BEFORE the operation has any effect,
  * answer a listing call (ls, find, glob, expand_path, walk) with the STALE listing the directory
    had before the most recent mutation below it (most recently created entry omitted, or most
    recently removed entry still listed),
  * hand control to a scheduler hook (used by the controlled Dask scheduler of C18).
Fault-free it is a recorder whose log is the replay artefact.
"""
import os
import threading

from fsspec.implementations.local import LocalFileSystem

WRAPPED = ("open", "ls", "find", "glob", "expand_path", "walk", "makedirs", "mkdir", "mkdirs", "rm", "rm_file", "rmdir",
           "mv", "move", "rename", "cp_file", "copy", "exists", "lexists", "isfile", "isdir", "info", "checksum", "size", "sizes",
           "cat_file", "cat", "pipe_file", "touch", "created", "modified", "du", "get_file", "put_file", "head", "tail", "ukey")
LISTING = ("ls", "find", "glob", "expand_path", "walk")
MUTATING_CREATE = ("makedirs", "mkdir", "mkdirs", "touch", "pipe_file")
MUTATING_REMOVE = ("rm", "rm_file", "rmdir")
LISTING_ORDERS = ("native", "reversed", "creation", "creation_desc")


class Fault:
    """kind in {'oserror', 'fnf', 'stale'}; at = call number; repeat = how many consecutive calls with the
    same (method, path) signature are hit, starting with call `at`"""

    def __init__(self, at, kind, repeat=1):
        self.at, self.kind, self.repeat = at, kind, repeat
        self.sig = None
        self.left = repeat

    def spec(self):
        return [self.at, self.kind, self.repeat]


class VerifFS(LocalFileSystem):
    cachable = False          # never share instances between executions

    def __init__(self, faults=(), yield_hook=None, listing="native", **kw):
        super().__init__(**kw)
        assert listing in LISTING_ORDERS, listing
        self.listing = listing
        self._vf_lock = threading.RLock()
        self._vf_tls = threading.local()
        self.calls = []             # (n, method, path)
        self.faults = [Fault(*f) if not isinstance(f, Fault) else f for f in faults]
        self.injected = []          # (n, method, path, kind)
        self.mutations = []         # (kind 'create'|'remove', path, isdir)
        self.yield_hook = yield_hook

    # -------------------------------------------------------------------------------------------
    def _reorder(self, res):
        """the same entries in the order this instance is configured to list them in (a listing has no promised order)"""
        if self.listing == "native" or not isinstance(res, list) or len(res) < 2:
            return res
        if self.listing == "reversed":
            return res[::-1]
        born = {}
        for i, m in enumerate(list(self.mutations)):
            if m[0] == "create" and m[1] is not None:
                born[self._strip_protocol(str(m[1])).rstrip("/")] = i

        def key(e):
            name = e["name"] if isinstance(e, dict) else e
            name = self._strip_protocol(str(name)).rstrip("/")
            return (born.get(name, -1), name)
        return sorted(res, key=key, reverse=(self.listing == "creation_desc"))

    def _depth(self):
        return getattr(self._vf_tls, "depth", 0)

    def _enter(self, name, args):
        path = None
        if args:
            a = args[0]
            if isinstance(a, (list, tuple)):
                a = a[0] if a else None
            path = self._strip_protocol(str(a)) if a is not None else None
        with self._vf_lock:
            n = len(self.calls)
            self.calls.append((n, name, path))
        if self.yield_hook is not None:
            self.yield_hook(n, name, path)
        kind = None
        with self._vf_lock:
            for f in self.faults:
                if f.left <= 0:
                    continue
                if f.sig is None:
                    if f.at == n and self._applicable(f.kind, name):
                        f.sig = (name, path)
                        f.left -= 1
                        kind = f.kind
                        break
                elif f.sig == (name, path):
                    f.left -= 1
                    kind = f.kind
                    break
            if kind:
                self.injected.append((n, name, path, kind))
        return n, path, kind

    @staticmethod
    def _applicable(kind, name):
        if kind == "stale":
            return name in LISTING
        return True

    def _record_mutation(self, name, args, kwargs, before):
        try:
            if name in MUTATING_CREATE:
                self.mutations.append(("create", self._strip_protocol(str(args[0])), name != "touch" and name != "pipe_file"))
            elif name in MUTATING_REMOVE:
                p = args[0]
                for q in (p if isinstance(p, (list, tuple)) else [p]):
                    self.mutations.append(("remove", self._strip_protocol(str(q)), bool(before.get(str(q)))))
            elif name in ("mv", "move", "rename"):
                self.mutations.append(("remove", self._strip_protocol(str(args[0])), False))
                self.mutations.append(("create", self._strip_protocol(str(args[1])), False))
        except Exception:
            pass

    def _stale(self, name, path, result):
        """undo the effect of the most recent mutation below `path` in a listing result"""
        base = (path or "").rstrip("/")
        # glob / expand_path patterns: directory part before the first wildcard
        for ch in "*?[":
            if ch in base:
                base = base[:base.index(ch)].rsplit("/", 1)[0]
        last = None
        for m in reversed(self.mutations):
            if m[1] == base or m[1].startswith(base + "/"):
                if m[1] != base:
                    last = m
                    break
        if last is None:
            return result, False
        kind, mpath, isdir = last

        def under(p):
            p = self._strip_protocol(str(p))
            return p == mpath or p.startswith(mpath + "/")

        if kind == "create":
            if isinstance(result, dict):
                new = {k: v for k, v in result.items() if not under(k)}
            elif isinstance(result, list):
                new = [e for e in result if not under(e["name"] if isinstance(e, dict) else e)]
            else:
                return result, False
            return new, len(new) != len(result)
        # removed entry still listed
        info = {"name": mpath, "size": 0, "type": "directory" if isdir else "file", "created": 0, "islink": False,
                "mode": 0o644, "uid": 0, "gid": 0, "mtime": 0, "ino": 0, "nlink": 1}
        if isinstance(result, dict):
            if mpath in result:
                return result, False
            new = dict(result)
            new[mpath] = info
            return dict(sorted(new.items())), True
        if isinstance(result, list):
            names = [e["name"] if isinstance(e, dict) else e for e in result]
            if mpath in names:
                return result, False
            if result and isinstance(result[0], dict):
                return sorted(result + [info], key=lambda e: e["name"]), True
            return sorted(list(result) + [mpath]), True
        return result, False


def _make_wrapper(name):
    orig = getattr(LocalFileSystem, name)

    def wrapper(self, *args, **kwargs):
        if self._depth() > 0:
            return orig(self, *args, **kwargs)
        n, path, kind = self._enter(name, args)
        if kind == "oserror":
            raise OSError(5, f"injected transient I/O error at call {n} ({name} {path})")
        if kind == "fnf":
            raise FileNotFoundError(2, f"injected transient FileNotFoundError at call {n} ({name} {path})")
        before = {}
        if name in MUTATING_REMOVE and args:
            p = args[0]
            for q in (p if isinstance(p, (list, tuple)) else [p]):
                try:
                    before[str(q)] = os.path.isdir(self._strip_protocol(str(q)))
                except Exception:
                    pass
        self._vf_tls.depth = 1
        try:
            res = orig(self, *args, **kwargs)
        finally:
            self._vf_tls.depth = 0
        if name == "open" and args and len(args) > 1 and isinstance(args[1], str) and ("w" in args[1] or "a" in args[1]) \
                or (name == "open" and "w" in str(kwargs.get("mode", ""))):
            self.mutations.append(("create", path, False))
        else:
            self._record_mutation(name, args, kwargs, before)
        if kind == "stale":
            if name == "walk":
                return res
            new, changed = self._stale(name, path, res)
            if not changed:
                self.injected[-1] = self.injected[-1] + ("noop",)
            return new
        if name == "ls":
            return self._reorder(res)
        return res

    wrapper.__name__ = name
    return wrapper


for _name in WRAPPED:
    if hasattr(LocalFileSystem, _name):
        setattr(VerifFS, _name, _make_wrapper(_name))


class CopyRemoveFS(VerifFS):
    """a filesystem whose move is not atomic: fsspec's generic copy-then-remove (object stores); the copy and the remove are
    calls of their own, so a fault can fall between them and leave source AND destination in place"""

    def mv(self, path1, path2, recursive=False, maxdepth=None, **kwargs):
        self.cp_file(path1, path2)
        self.rm_file(path1)

    move = mv
