"""C05 -- spatial join returns exactly the intersecting (left, right) pairs.

E1: every sequence of 0..3 left rows over a pool of points (duplicates, missing, matching many,
matching nothing) x every sequence of 0..2 right rows per geometry kind x how in
{inner,left,right}, with index styles / extra columns / suffixes rotated so that every value of
every axis meets every row sequence.  The expected result TABLE is built from the exact C02
oracle and compared as a multiset of rows (NaN-aware, dtype- and order-insensitive).
"""
import itertools
import math

import numpy as np

from .. import core
from .. import lattice as L
from .. import oracle as O
from .c01 import jelem, telem

LEVEL = "exploration"

LEFT_POOL = [(1, 1), (1, 1), None, (9, 9), (5, 5), (3, 1)]


def sq(x0, y0, x1, y1):
    return ((x0, y0), (x1, y0), (x1, y1), (x0, y1), (x0, y0))


def tri(a, b, c):
    return (a, b, c, a)


RIGHT_POOLS = {
    # T1 / T2 split the square (0,0)-(6,6) along x+y=6: different shapes with the SAME bounding box
    "polygon": [(sq(0, 0, 4, 4),), (tri((0, 0), (6, 0), (0, 6)),), (tri((6, 0), (6, 6), (0, 6)),), (sq(20, 20, 22, 22),),
                (sq(0, 0, 8, 8), sq(4, 4, 6, 6)[::-1])],
    "multipolygon": [((sq(0, 0, 2, 2),), (sq(4, 4, 6, 6),)), ((sq(0, 0, 8, 8), sq(4, 4, 6, 6)[::-1]),), ((sq(20, 20, 22, 22),),),
                     # the same frame-with-hole, other start vertices / winding (ring start matters to the edge walk)
                     ((sq(0, 0, 8, 8)[1:] + sq(0, 0, 8, 8)[1:2], sq(4, 4, 6, 6)[::-1][2:] + sq(4, 4, 6, 6)[::-1][1:3]),),
                     ((sq(0, 0, 8, 8)[::-1], sq(4, 4, 6, 6)[1:] + sq(4, 4, 6, 6)[1:2]), (sq(10, 10, 12, 12),))],
    # the first two lines share the bounding box (4,4)-(6,6)
    # ((1, 1),) / ((9, 9),): a part with a single vertex has no segment at all, a point on it still intersects
    "line": [((4, 4), (6, 6)), ((4, 6), (6, 6), (6, 4)), ((0, 2), (2, 0)), ((20, 0), (21, 0)), ((3, 0), (3, 2), (3, 2)), ((1, 1),)],
    # crossing diagonals: (1,1) lies inside the first part and in the bounding box of the second without touching it; (3,1) is on the second
    "multiline": [(((4, 4), (6, 6)), ((0, 2), (2, 0))), (((8, 8), (10, 10)),), (((0, 2), (2, 0)), ((9, 9),)), (((0, 0), (4, 4)), ((0, 4), (4, 0)))],
    # ((1,9),(9,1)) contains neither (1,1) nor (9,9) although x and y each occur in some member;
    # the first two multipoints share the bounding box
    "multipoint": [((5, 5), (9, 0)), ((5, 0), (9, 5)), ((1, 1),), ((1, 9), (9, 1)), ((7, 7), (9, 9), (3, 1))],
    "point": [(1, 1), (9, 9), (0, 0)],
}
LEFT_INDEX_STYLES = ("default", "nonunique", "named", "multi", "range_step")
RIGHT_INDEX_STYLES = ("default", "labels", "range_step", "multi")
LEFT_EXTRA = ("none", "clash")
SUFFIXES = (("left", "right"), ("a", "b"))
HOWS = ("inner", "left", "right")
NANV = "NaN"


def matches(lrows, kind, rrows):
    """exact table M[i][j] = left point i intersects right shape j"""
    out = [[False] * len(rrows) for _ in lrows]
    for j, e in enumerate(rrows):
        pts = [(i, p) for i, p in enumerate(lrows) if p is not None]
        if not pts:
            continue
        PX = np.array([p[0] for _, p in pts], dtype=np.int64)
        PY = np.array([p[1] for _, p in pts], dtype=np.int64)
        exp, defined = O.classify_points(kind, e, PX, PY)
        if not defined.all():
            raise core.HarnessError("pool point lies on a polygon ring")
        for (i, _), v in zip(pts, exp):
            out[i][j] = bool(v)
    return out


def left_index(style, n):
    import pandas as pd
    if style == "default":
        return pd.RangeIndex(n), [(i,) for i in range(n)], [None]
    if style == "nonunique":
        labs = ["x", "x", "y", "y"][:n]
        return pd.Index(labs, dtype=object), [(v,) for v in labs], [None]
    if style == "named":
        labs = [10, 20, 30, 40][:n]
        return pd.Index(labs, name="k"), [(v,) for v in labs], ["k"]
    if style == "range_step":
        # what df.iloc[::2] leaves: a RangeIndex that starts at 0 but whose labels are not the row positions
        return pd.RangeIndex(0, 2 * n, 2), [(2 * i,) for i in range(n)], [None]
    labs = [("u", 1), ("u", 2), ("v", 1), ("v", 2)][:n]
    return pd.MultiIndex.from_tuples(labs, names=["m1", "m2"]) if n else pd.MultiIndex.from_arrays([[], []], names=["m1", "m2"]), labs, ["m1", "m2"]


def right_index(style, n):
    import pandas as pd
    if style == "default":
        return pd.RangeIndex(n), list(range(n)), None
    if style == "range_step":
        return pd.RangeIndex(0, 3 * n, 3), [3 * j for j in range(n)], None
    if style == "multi":
        labs = [("p", 7), ("p", 8), ("q", 7)][:n]
        mi = pd.MultiIndex.from_tuples(labs, names=["g1", "g2"]) if n else pd.MultiIndex.from_arrays([[], []], names=["g1", "g2"])
        return mi, labs, ["g1", "g2"]
    labs = ["r0", "r1", "r2"][:n]
    return pd.Index(labs, dtype=object, name="rid"), labs, "rid"


def norm(v):
    """normalise a cell for multiset comparison"""
    if v is None:
        return NANV
    if isinstance(v, float):
        if math.isnan(v):
            return NANV
        if v.is_integer():
            return int(v)
        return v
    if isinstance(v, (np.floating,)):
        return norm(float(v))
    if isinstance(v, (np.integer,)):
        return int(v)
    if isinstance(v, (bytes, bytearray)):
        return bytes(v)
    if isinstance(v, (list, tuple, np.ndarray)):
        return tuple(norm(x) for x in v)
    try:
        import pandas as pd
        if v is pd.NA or (isinstance(v, float) and math.isnan(v)):
            return NANV
    except Exception:
        pass
    return v


def geom_py(series):
    return series.array.data.to_pylist()


def run_case(col, kind, lrows, rrows, lstyle, rstyle, extra, how, suf, case):
    import pandas as pd
    from spatialpandas import GeoDataFrame, sjoin
    nl, nr = len(lrows), len(rrows)
    lidx, llabels, lnames = left_index(lstyle, nl)
    ridx, rlabels, rname = right_index(rstyle, nr)
    larr = L.make_array("point", lrows, "float64")
    rarr = L.make_array(kind, rrows, "float64")
    ldata = {"geometry": larr, "a": [100 + i for i in range(nl)]}
    if extra == "clash":
        ldata["name"] = [f"L{i}" for i in range(nl)]
    left = GeoDataFrame(ldata, index=lidx)
    right = GeoDataFrame({"geometry": rarr, "name": [f"R{j}" for j in range(nr)], "w": [0.5 + j for j in range(nr)]},
                         index=ridx)
    lsuf, rsuf = suf
    col.count("evaluations")
    try:
        res = sjoin(left, right, how=how, lsuffix=lsuf, rsuffix=rsuf)
    except Exception as ex:
        col.violation("sjoin.raises", case, f"{type(ex).__name__}: {str(ex)[:300]}", how=how, kind=kind,
                      empty_left=(nl == 0), empty_right=(nr == 0))
        return
    Mx = matches(lrows, kind, rrows)
    npairs = sum(sum(r) for r in Mx)
    if 0 < npairs and (npairs < nl * nr or nl * nr == 1):
        col.count("nontrivial")
    lgeo = geom_py(left["geometry"])
    rgeo = geom_py(right["geometry"])
    clash = extra == "clash"
    lname_col = f"name_{lsuf}" if clash else None
    rname_col = f"name_{rsuf}" if clash else "name"
    nlev = len(lnames)
    idx_left_cols = [f"index_{lsuf}"] if nlev == 1 else [f"index_{lsuf}{k}" for k in range(nlev)]
    rnames = rname if isinstance(rname, list) else [rname]
    rlev = len(rnames)
    idx_right_cols = [f"index_{rsuf}"] if rlev == 1 else [f"index_{rsuf}{k}" for k in range(rlev)]
    rtup = [list(v) if isinstance(v, tuple) else [v] for v in rlabels]
    # ---------------- expected rows
    exp_rows = []
    if how in ("inner", "left"):
        exp_cols = ["geometry", "a"] + ([lname_col] if clash else []) + idx_right_cols + [rname_col, "w"]
        for i in range(nl):
            js = [j for j in range(nr) if Mx[i][j]]
            base = list(llabels[i]) + [lgeo[i], 100 + i] + ([f"L{i}"] if clash else [])
            if js:
                for j in js:
                    exp_rows.append(base + rtup[j] + [f"R{j}", 0.5 + j])
            elif how == "left":
                exp_rows.append(base + [None] * rlev + [None, None])
        exp_index_names = lnames
    else:
        exp_cols = idx_left_cols + ["a"] + ([lname_col] if clash else []) + ["geometry", rname_col, "w"]
        for j in range(nr):
            is_ = [i for i in range(nl) if Mx[i][j]]
            tail = [rgeo[j], f"R{j}", 0.5 + j]
            if is_:
                for i in is_:
                    exp_rows.append(rtup[j] + list(llabels[i]) + [100 + i] + ([f"L{i}"] if clash else []) + tail)
            else:
                exp_rows.append(rtup[j] + [None] * nlev + [None] + ([None] if clash else []) + tail)
        exp_index_names = rnames
    # ---------------- observed: the pandas result, and the result with the same left frame held by Dask (2 partitions)
    results = [("", res)]
    if how != "right" and nl >= 2 and lstyle in ("default", "named", "range_step") and (nl * 3 + nr + len(kind)) % 4 == 0:
        import dask.dataframe as dd
        col.count("evaluations")
        try:
            results.append(("dask-left:", sjoin(dd.from_pandas(left, npartitions=2), right, how=how, lsuffix=lsuf, rsuffix=rsuf)
                            .compute(scheduler="synchronous")))
        except Exception as ex:
            col.violation("sjoin.dask_left.raises", case, f"{type(ex).__name__}: {str(ex)[:300]}", how=how, kind=kind)
    for tag, res in results:
        _observe(col, case, tag, res, how, kind, lrows, rrows, exp_cols, exp_rows, exp_index_names, clash, npairs)
    col.outcome(f"{how}:pairs={min(npairs, 4)}")


def _observe(col, case, tag, res, how, kind, lrows, rrows, exp_cols, exp_rows, exp_index_names, clash, npairs):
    from spatialpandas import GeoDataFrame
    if not isinstance(res, GeoDataFrame):
        col.violation("sjoin.type", case, f"result type {type(res).__name__}", how=how)
        return
    if sorted(map(str, res.columns)) != sorted(exp_cols):
        col.violation("sjoin.columns", case, f"columns {list(res.columns)} expected (any order) {exp_cols}", how=how,
                      clash=clash)
        return
    if list(res.index.names) != list(exp_index_names):
        col.violation("sjoin.index_names", case, f"index names {list(res.index.names)} expected {exp_index_names}", how=how)
    obs_rows = []
    res2 = res.copy()
    geo = geom_py(res2["geometry"])
    others = {c: res2[c].tolist() for c in exp_cols if c != "geometry"}
    idx_vals = [v if isinstance(v, tuple) else (v,) for v in res2.index.tolist()]
    for r in range(len(res2)):
        row = list(idx_vals[r])
        for c in exp_cols:
            row.append(geo[r] if c == "geometry" else others[c][r])
        obs_rows.append(row)
    # expected rows were assembled as index + columns in exp_cols order for inner/left; for right too
    def keyrow(row):
        return tuple(norm(v) for v in row)
    from collections import Counter
    got = Counter(keyrow(r) for r in obs_rows)
    want = Counter(keyrow(r) for r in exp_rows)
    if got != want:
        missing = list((want - got).elements())[:3]
        extra_rows = list((got - want).elements())[:3]
        col.violation(f"sjoin.rows.{how}", dict(case, form=tag or "pandas"),
                      f"{tag}how={how} kind={kind} left={jelem(tuple(lrows))} right rows={len(rrows)}: missing {missing} unexpected {extra_rows}",
                      how=how, kind=kind)


def large_case(col, how, page_hint):
    """a left frame larger than one R-tree page (default page_size 512): 1100 points on a half-integer grid"""
    import pandas as pd
    from collections import Counter
    from spatialpandas import GeoDataFrame, sjoin
    n = 1100
    pts = [((i % 33) * 2 + 1, (i // 33) * 2 + 1) for i in range(n)]          # odd coordinates: off every ring below
    shapes = {"polygon": [(sq(0, 0, 20, 20),), (sq(10, 10, 66, 68),), (sq(40, 0, 42, 2),), (sq(0, 0, 66, 68), sq(20, 20, 30, 30)[::-1])],
              "line": [((1, 1), (65, 65)), ((3, 1), (3, 67))]}
    for kind, rrows in shapes.items():
        col.count("evaluations")
        col.count("nontrivial")
        left = GeoDataFrame({"geometry": L.make_array("point", pts, "float64"), "a": np.arange(n)})
        right = GeoDataFrame({"geometry": L.make_array(kind, rrows, "float64"), "w": np.arange(len(rrows))})
        case = {"kind": kind, "large": True, "how": how}
        try:
            res = sjoin(left, right, how=how)
        except Exception as ex:
            col.violation("sjoin.large.raises", case, f"{type(ex).__name__}: {str(ex)[:200]}")
            continue
        Mx = matches(pts, kind, rrows)
        want = Counter()
        for i in range(n):
            js = [j for j in range(len(rrows)) if Mx[i][j]]
            for j in js:
                want[(i, j)] += 1
            if not js and how == "left":
                want[(i, None)] += 1
        if how == "right":
            for j in range(len(rrows)):
                if not any(Mx[i][j] for i in range(n)):
                    want[(None, j)] += 1
        got = Counter()
        a = res["a"].tolist()
        w = res["w"].tolist()
        for x, y in zip(a, w):
            got[(None if x != x else int(x), None if y != y else int(y))] += 1
        if got != want:
            dup = [k for k, v in got.items() if v > want.get(k, 0)][:3]
            mis = [k for k, v in want.items() if v > got.get(k, 0)][:3]
            col.violation(f"sjoin.large.{how}", case, f"1100 left points, {kind}: duplicated/unexpected pairs {dup}, missing pairs {mis}", how=how)


def plan(ctx):
    T = ctx.thorough
    lseqs = [()]
    for n in (1, 2, 3):
        for s in itertools.product(range(len(LEFT_POOL)), repeat=n):
            if n == 3 and not T and not ((s[0] < s[1] < s[2]) or (len(set(s)) == 2)):
                continue
            lseqs.append(s)
    units = []
    for kind, pool in RIGHT_POOLS.items():
        rseqs = [()]
        for n in (1, 2) + ((3,) if T else ()):
            rseqs += list(itertools.product(range(len(pool)), repeat=n))
        for c in range(0, len(lseqs), 30):
            units.append((kind, lseqs[c:c + 30], rseqs))
    return units


def run(ctx):
    from spatialpandas import GeoDataFrame, sjoin
    for kind, pool in RIGHT_POOLS.items():
        left = GeoDataFrame({"geometry": L.make_array("point", [(1, 1), None], "float64")})
        right = GeoDataFrame({"geometry": L.make_array(kind, pool[:2], "float64")})
        try:
            sjoin(left, right)
        except Exception:
            pass
    units = plan(ctx)
    seed = ctx.seed
    thorough = ctx.thorough

    def work(col, ui):
        if ui == 0:
            for how in HOWS:
                large_case(col, how, None)
        kind, lseqs, rseqs = units[ui]
        pool = RIGHT_POOLS[kind]
        n = 0
        for li, ls in enumerate(lseqs):
            lrows = [LEFT_POOL[k] for k in ls]
            for ri, rs in enumerate(rseqs):
                rrows = [pool[k] for k in rs]
                for hi, how in enumerate(HOWS):
                    if len(ls) == 3 and not thorough and (li + ri) % 3 != hi:
                        continue          # triples: one rotating join type per (left, right) pair in quick
                    n += 1
                    k = n + seed + ui
                    lstyle = LEFT_INDEX_STYLES[(li + ri + hi + seed) % 5]
                    rstyle = RIGHT_INDEX_STYLES[(li + hi + k) % 4]
                    extra = LEFT_EXTRA[(ri + k // 2) % 2]
                    suf = SUFFIXES[(li + ri + k // 3) % 2]
                    if len(lrows) > 4 and lstyle in ("nonunique", "named", "multi"):
                        lstyle = "default"
                    case = {"kind": kind, "left": [jelem(p) for p in lrows], "right_ids": list(rs), "lstyle": lstyle,
                            "rstyle": rstyle, "extra": extra, "how": how, "suffixes": list(suf)}
                    run_case(col, kind, lrows, rrows, lstyle, rstyle, extra, how, suf, case)
                    if n % 500 == 1:
                        col.sample(case)

    core.pmap(ctx, work, len(units))
    ctx.rule = ("every left row sequence (0..3 rows over a 6-point pool with a duplicate, a missing point, a point matching "
                "many / nothing) x every right row sequence (0..2, 3 in thorough) per kind x how in {inner,left,right}; index "
                "styles, clashing columns and suffixes rotate so that each value meets every sequence. Non-trivial = some but "
                "not all (left,right) pairs match.")
    ctx.assumptions = ["pool points are off every polygon ring (checked)", "row order and dtypes of the result are not compared "
                       "(pandas merge semantics)", "right geometries are non-missing (missing right rows: C17)"]


def replay(ctx, case):
    col = core.Collector()
    pool = RIGHT_POOLS[case["kind"]]
    lrows = [telem(p) if p is not None else None for p in case["left"]]
    rrows = [pool[k] for k in case["right_ids"]]
    run_case(col, case["kind"], lrows, rrows, case["lstyle"], case["rstyle"], case["extra"], case["how"],
             tuple(case["suffixes"]), case)
    return col.violations
