"""C18 -- results do not depend on scheduling, thread count or concurrent use.

E3 (stateless, deviation-bounded schedule exploration on the real code):
  E3a  a controlled Dask scheduler decides which ready task starts (W workers) and which running
       task advances to its next filesystem call: cx, sjoin, bounds/area/length/intersects_bounds,
       pack_partitions, pack_partitions_to_parquet (both temp modes, with an empty output
       partition), read_parquet_dask;
  E3b  2-3 client threads on ONE shared fresh object, pre-empted at every line of the lazily
       built caches (sys.monitoring LINE events on exactly those code objects);
  E3c  the prange kernels' own Python source with "each iteration is a thread" semantics
       (AST rewrite at check time), validated against the compiled kernel on every input;
  free-running complement (separate process, omp layer, 16 numba threads): the same bodies on
       genuinely concurrent threads over the scheduler x workers x numba-threads grid.
Oracle: the serial / synchronous result.
"""
import ast
import inspect
import json
import os
import pickle
import shutil
import subprocess
import sys
import textwrap
import threading
import time
import uuid

import numpy as np

from .. import core, sched
from .. import lattice as L
from ..faultfs import LISTING_ORDERS, VerifFS

LEVEL = "model_checking"
RETRY = dict(wait_exponential_multiplier=1, wait_exponential_max=1, stop_max_attempt_number=3)     # the keys of the library's own default, 1 ms waits


def sq(x0, y0, x1, y1):
    return ((x0, y0), (x1, y0), (x1, y1), (x0, y1), (x0, y0))


def frame6():
    import pandas as pd
    from spatialpandas import GeoDataFrame
    pts = [(0, 0), (7, 7), (1, 6), None, (6, 1), (3, 3)]
    polys = [(sq(0, 0, 2, 2),), (sq(5, 5, 7, 7),), (), (sq(0, 5, 2, 7),), None, (sq(2, 2, 4, 4),)]
    return GeoDataFrame({"pts": L.make_array("point", pts, "float64"), "val": np.arange(6),
                         "polys": L.make_array("polygon", polys, "float64")},
                        index=pd.Index(np.arange(6) + 100, name="idx"), geometry="pts")


def frame_ties():
    """every point occurs once in EACH input partition (rows 0-3 / 4-7 with npartitions=2): every output partition is
    concatenated from two sub-parts whose rows have pairwise equal Hilbert distances, so the order of the written rows
    shows the order the sub-parts were read in"""
    import pandas as pd
    from spatialpandas import GeoDataFrame
    pts = [(0, 0), (7, 7), (1, 6), (6, 1)] * 2
    return GeoDataFrame({"pts": L.make_array("point", pts, "float64"), "val": np.arange(8)},
                        index=pd.Index(np.arange(8) + 100, name="idx"), geometry="pts")


def right_polys():
    from spatialpandas import GeoDataFrame
    return GeoDataFrame({"geometry": L.make_array("polygon", [(sq(-1, -1, 2, 7),), (sq(2, 0, 8, 8),)], "float64"), "r": [0, 1]})


_RUN = [0]


def fresh(P):
    """the same frame with a new Dask token: dask-expr keeps expression singletons (and what they cached, e.g. the
    quantiles of set_index) per token, so every execution gets a cold, identical-looking input"""
    _RUN[0] += 1
    return P.assign(_run=_RUN[0])


def rows(df):
    out = []
    if "_run" in getattr(df, "columns", []):
        df = df.drop(columns="_run")
    for rec in df.reset_index().to_dict("records"):
        item = []
        for k, v in sorted(rec.items()):
            if hasattr(v, "data") and hasattr(v.data, "as_py"):
                v = repr(v.data.as_py())
            elif isinstance(v, float) and v != v:
                v = None
            elif isinstance(v, (np.integer, np.floating)):
                v = float(v)
            item.append((k, v))
        out.append(tuple(item))
    return tuple(out)


class det_uuid:
    """uuid4 becomes a deterministic counter while active (dask names pure=False tasks with it and breaks ties between
    ready tasks by name). The high bits carry a per-process execution number so that names never repeat between
    executions (dask-expr would hand back the cached graph of an earlier execution, with that execution's paths), the low
    bits the call number, so the relative order of the names inside one execution is always the same."""
    runs = [0]

    def __enter__(self):
        self.old = uuid.uuid4
        det_uuid.runs[0] += 1
        hi = (0xabc << 108) + (det_uuid.runs[0] << 64)
        c = [0]

        def f():
            c[0] += 1
            return uuid.UUID(int=((c[0] & 0xffffffff) << 96) + hi + c[0])        # every hex prefix of the value differs from call to call
        uuid.uuid4 = f

    def __exit__(self, *a):
        uuid.uuid4 = self.old


# ------------------------------------------------------------------------------------------------
# E3a harnesses: observation = result under the controlled scheduler
# ------------------------------------------------------------------------------------------------
def e3a_harnesses(scratch):
    import dask
    import dask.dataframe as dd
    from spatialpandas import sjoin
    from spatialpandas.io import read_parquet_dask
    from .c19 import dataset_state
    P = frame6()
    R = right_polys()
    H = {}

    def mk(fn):
        def run(chooser, W):
            with det_uuid():
                ctl = sched.ControlledDask(chooser, workers=W)
                return fn(ctl)
        return run

    H["cx"] = mk(lambda ctl: rows(dd.from_pandas(fresh(P), npartitions=3).cx[-1:4, -1:8].compute(scheduler=ctl)))
    H["sjoin"] = mk(lambda ctl: tuple(sorted(rows(sjoin(dd.from_pandas(fresh(P), npartitions=3), R, how="left").compute(scheduler=ctl)))))

    def rowwise(ctl):
        d = dd.from_pandas(fresh(P.set_geometry("polys")), npartitions=3)
        g = d.geometry
        return (tuple(map(tuple, np.nan_to_num(g.bounds.compute(scheduler=ctl).values, nan=-9).tolist())),
                tuple(np.nan_to_num(g.area.compute(scheduler=ctl).values, nan=-9).tolist()),
                tuple(np.nan_to_num(g.length.compute(scheduler=ctl).values, nan=-9).tolist()),
                tuple(g.intersects_bounds((1, 1, 6, 6)).compute(scheduler=ctl).tolist()))
    H["rowwise"] = mk(rowwise)

    def pack(ctl):
        with dask.config.set(scheduler=ctl):
            r = dd.from_pandas(fresh(P), npartitions=2).pack_partitions(npartitions=2, p=6)
            parts = [rows(d.compute()) for d in r.to_delayed()]
        return tuple(parts)
    H["pack_partitions"] = mk(pack)

    def pack_parquet(mode, listing="native", frame=None, npk=4):
        def fn(ctl):
            work = os.path.join(scratch, f"pp-{os.getpid()}-{threading.get_ident()}")
            shutil.rmtree(work, ignore_errors=True)
            os.makedirs(os.path.join(work, "tmpbase"))
            path = os.path.join(work, "ds.parq")
            fmt = None if mode == "default" else os.path.join(work, "tmpbase", "t-{uuid}-{partition}")
            fs = VerifFS(yield_hook=lambda n, name, p: sched.maybe_yield(f"fs:{name}"), listing=listing)
            with dask.config.set(scheduler=ctl):
                ret = dd.from_pandas(fresh(P if frame is None else frame), npartitions=2).pack_partitions_to_parquet(
                    path, filesystem=fs, npartitions=npk, p=6, tempdir_format=fmt, _retry_args=RETRY)
                rv = rows(ret.compute())
            st = dataset_state(path, os.path.join(work, "tmpbase"))
            shutil.rmtree(work, ignore_errors=True)
            return json.dumps({"returned": rv, "state": st}, sort_keys=True, default=str)
        return fn
    H["pack_to_parquet:default"] = mk(pack_parquet("default"))
    H["pack_to_parquet:external"] = mk(pack_parquet("external"))
    # tied Hilbert distances on a filesystem that lists in creation order: the directory listing is an answer of the
    # environment that depends on which task created its sub-part first, i.e. on the schedule
    T8 = frame_ties()
    for order in LISTING_ORDERS:
        H[f"pack_to_parquet:ties:{order}"] = mk(pack_parquet("default", order, T8, 2))
    H["pack_to_parquet:ties-external:creation"] = mk(pack_parquet("external", "creation", T8, 2))

    def read_back(ctl):
        # written lazily inside the worker process (no Dask / pyarrow I/O in the parent before the fork)
        rp = os.path.join(scratch, f"e3a-read-{os.getpid()}.parq")
        if not os.path.exists(rp):
            dd.from_pandas(P, npartitions=3).to_parquet(rp)
        return rows(read_parquet_dask(rp).compute(scheduler=ctl))
    H["read_parquet_dask"] = mk(read_back)
    return H


def run_e3a(col, scratch, name, W, bound, shard):
    H = e3a_harnesses(scratch)
    run = H[name]
    outcomes = {}

    def once(ch):
        return run(ch, W)

    seen_sched = []

    def on_exec(prefix, obs, points):
        col.count("evaluations")
        col.count("transitions", len(points))
        if prefix and len(seen_sched) < 2:
            seen_sched.append({"choices": list(prefix), "choice_points": len(points)})
        outcomes.setdefault(obs if isinstance(obs, str) else repr(obs), list(prefix))

    try:
        st = sched.explore(once, bound, shard=shard, on_execution=on_exec)
    except core.HarnessError:
        raise
    except Exception as ex:
        col.violation(f"e3a.{name}.raises", {"engine": "E3a", "harness": name, "workers": W, "bound": bound},
                      f"{type(ex).__name__}: {str(ex)[:300]}", harness=name)
        return
    col.count("states", st["executions"])
    col.count("nontrivial", st["executions"] - 1)
    col.count(f"exec:e3a:{name}", st["executions"])
    col.outcome(f"e3a:{name}:W{W}:outcomes={len(outcomes)}")
    if len(outcomes) > 1:
        keys = list(outcomes)
        col.violation(f"e3a.{name}", {"engine": "E3a", "harness": name, "workers": W, "bound": bound,
                                      "schedule": outcomes[keys[1]]},
                      f"{name} W={W}: schedule {outcomes[keys[1]]} gives a different result than the default schedule: "
                      f"{keys[1][:300]} vs {keys[0][:300]}", harness=name)
    col.sample({"engine": "E3a", "harness": name, "workers": W, "bound": bound, "executions": st["executions"],
                "choice_points_default": st["points_default"], "explored_schedules_examples": seen_sched})


# ------------------------------------------------------------------------------------------------
# E3b: client threads on one shared object
# ------------------------------------------------------------------------------------------------
def run_listing(col, scratch):
    """the order a directory is listed in is an answer of the environment: the written dataset must be the same for every
    order (default schedule, W = 1 and 2); the creation-order variants are explored over schedules by run_e3a"""
    H = e3a_harnesses(scratch)
    for W in (1, 2):
        outs = {}
        for order in LISTING_ORDERS:
            name = f"pack_to_parquet:ties:{order}"
            try:
                obs = H[name](sched.Chooser([]), W)
            except core.HarnessError:
                raise
            except Exception as ex:
                col.violation(f"e3a.{name}.raises", {"engine": "E3a-listing", "harness": name, "workers": W},
                              f"{type(ex).__name__}: {str(ex)[:300]}", harness=name)
                continue
            col.count("evaluations")
            col.count("states")
            col.count("nontrivial", 1 if order != "native" else 0)
            outs.setdefault(obs, order)
        col.outcome(f"e3a:listing-orders:W{W}:outcomes={len(outs)}")
        if len(outs) > 1:
            keys = list(outs)
            col.violation("e3a.listing_order", {"engine": "E3a-listing", "workers": W, "orders": [outs[k] for k in keys]},
                          f"pack_partitions_to_parquet W={W}: a filesystem that lists in '{outs[keys[1]]}' order gives a different "
                          f"dataset than one that lists in '{outs[keys[0]]}' order: {keys[1][:300]} vs {keys[0][:300]}",
                          harness="pack_to_parquet:ties")
    col.sample({"engine": "E3a-listing", "harness": "pack_to_parquet:ties", "listing_orders": list(LISTING_ORDERS), "workers": [1, 2]})


def cache_code_objects():
    import spatialpandas.dask as spd
    from spatialpandas.geometry import base
    from spatialpandas.spatialindex import rtree
    codes = []
    for fn in (base.GeometryArray.sindex.fget, base.GeometryArray.build_sindex, base.GeometryArray.cx.fget,
               rtree.HilbertRtree.__init__, rtree.HilbertRtree.numba_rtree.fget, rtree.HilbertRtree.intersects,
               rtree.HilbertRtree.covers_overlaps, rtree.HilbertRtree.__getstate__, rtree.HilbertRtree.total_bounds.fget,
               rtree.HilbertRtree.empty.fget,
               base._BaseCoordinateIndexer.__init__, base._BaseCoordinateIndexer.__getitem__, base._BaseCoordinateIndexer._get_bounds,
               base._CoordinateIndexer.__init__, base._CoordinateIndexer._perform_get_item,
               spd.DaskGeoSeries.partition_bounds.fget, spd.DaskGeoSeries.partition_sindex.fget, spd.DaskGeoSeries.total_bounds.fget,
               spd.DaskGeoDataFrame.partition_sindex.fget, spd.DaskGeoDataFrame.geometry.fget,
               spd.DaskGeoDataFrame.__getitem__, spd.DaskGeoDataFrame._propagate_props_to_series):
        codes.append(getattr(fn, "__code__", None))
    return codes


def all_library_code_objects():
    """every Python code object of the spatialpandas package (functions, methods, properties, nested functions and
    lambdas); numba-compiled kernels never produce LINE events, so they stay atomic steps"""
    import types
    seen, out = set(), []

    def add_code(c):
        if c is None or id(c) in seen:
            return
        seen.add(id(c))
        out.append(c)
        for k in c.co_consts:
            if hasattr(k, "co_code"):
                add_code(k)

    def add_obj(o):
        if isinstance(o, (staticmethod, classmethod)):
            o = o.__func__
        if isinstance(o, property):
            for f in (o.fget, o.fset, o.fdel):
                if f is not None:
                    add_obj(f)
            return
        if isinstance(o, types.FunctionType) and (o.__module__ or "").startswith("spatialpandas"):
            add_code(o.__code__)

    for mname, mod in list(sys.modules.items()):
        if not mname.startswith("spatialpandas") or ".tests" in mname or mod is None:
            continue
        for v in list(vars(mod).values()):
            if isinstance(v, type) and (v.__module__ or "").startswith("spatialpandas"):
                for a in list(vars(v).values()):
                    add_obj(a)
            else:
                add_obj(v)
    return out


def e3b_harnesses():
    """name -> (make_shared, [op thunks taking the shared object]) ; results must equal the serial ones"""
    import dask.dataframe as dd
    from spatialpandas import GeoDataFrame, GeoSeries
    P = frame6()
    box = (-1, -1, 4, 8)

    def arr():
        return L.make_array("polygon", [(sq(0, 0, 2, 2),), (sq(5, 5, 7, 7),), None, (sq(0, 5, 2, 7),), (), (sq(2, 2, 4, 4),)], "float64")

    def cx_arr(a):
        return tuple(map(repr, a.cx[box[0]:box[2], box[1]:box[3]].data.to_pylist()))

    def q_arr(a):
        return tuple(sorted(int(v) for v in a.sindex.intersects((1.0, 1.0, 6.0, 6.0))))

    def co_arr(a):
        c, o = a.sindex.covers_overlaps((-1.0, -1.0, 4.5, 8.0))
        return (tuple(sorted(int(v) for v in c)), tuple(sorted(int(v) for v in o)))

    def build(a):
        a.build_sindex(page_size=2)
        return q_arr(a)

    def tb(a):
        return tuple(np.nan_to_num(a.sindex.total_bounds, nan=-9).tolist())

    def pick(a):
        b = pickle.loads(pickle.dumps(a.sindex))
        return tuple(sorted(int(v) for v in b.intersects((1.0, 1.0, 6.0, 6.0))))

    def parr():
        return L.make_array("point", [(0, 0), (1, 5), None, (3, 1), (7, 7), (2, 2), None, (9, 2)], "float64")

    def ib_pts(a):
        return tuple(np.asarray(a.intersects_bounds((-0.5, -0.5, 3.5, 5.5))).tolist())

    def xy_pts(a):
        return (tuple(np.nan_to_num(np.asarray(a.x), nan=-9).tolist()), tuple(np.nan_to_num(np.asarray(a.y), nan=-9).tolist()))

    def cx_pts(a):
        return tuple(map(repr, a.cx[-0.5:3.5, -0.5:5.5].data.to_pylist()))

    H = {
        "points:ib|ib": (parr, [ib_pts, ib_pts]),
        "points:cx|xy|ib": (parr, [cx_pts, xy_pts, ib_pts]),
        "array:cx|query": (arr, [cx_arr, q_arr]),
        "array:build|cx": (arr, [build, cx_arr]),
        "array:query|covers": (arr, [q_arr, co_arr]),
        "array:cx|cx": (arr, [cx_arr, cx_arr]),
        "array:pickle|query": (lambda: arr().build_sindex(page_size=2), [pick, q_arr]),
        "array:total_bounds|query|cx": (arr, [tb, q_arr, cx_arr]),
    }

    def frame():
        return GeoDataFrame({"g": arr(), "v": np.arange(6)})

    def cx_frame(f):
        return tuple(f.cx[box[0]:box[2], box[1]:box[3]]["v"].tolist())

    def cx_series(f):
        return tuple(f["g"].cx[box[0]:box[2], box[1]:box[3]].index.tolist())

    def build_frame(f):
        f.build_sindex(page_size=1)
        return cx_frame(f)
    H["frame:cx|series.cx"] = (frame, [cx_frame, cx_series])
    H["frame:build|cx"] = (frame, [build_frame, cx_frame])

    def dframe():
        return dd.from_pandas(fresh(P), npartitions=3)

    def d_cx(d):
        return tuple(d.cx[box[0]:box[2], box[1]:box[3]].compute(scheduler="synchronous")["val"].tolist())

    def d_pb(d):
        return tuple(map(tuple, np.nan_to_num(d.geometry.partition_bounds.values, nan=-9).tolist()))

    def d_tb(d):
        return tuple(np.nan_to_num(d.geometry.total_bounds, nan=-9).tolist())
    H["dask:cx|partition_bounds"] = (dframe, [d_cx, d_pb])
    H["dask:cx|cx"] = (dframe, [d_cx, d_cx])
    H["dask:total_bounds|cx"] = (dframe, [d_tb, d_cx])
    return H


def run_two_packs(col, scratch, bound, shard):
    """two client threads each call pack_partitions_to_parquet on the SAME Dask frame (different output paths, the same
    tempdir_format with {uuid}); every filesystem call is a pre-emption point"""
    import dask
    import dask.dataframe as dd
    from .c19 import dataset_state
    P = frame6()
    bad = {}

    def run(chooser, tag):
        work = os.path.join(scratch, f"two-{os.getpid()}-{tag}")
        shutil.rmtree(work, ignore_errors=True)
        os.makedirs(os.path.join(work, "tmpbase"))
        fmt = os.path.join(work, "tmpbase", "t-{uuid}-{partition}")
        with det_uuid(), dask.config.set(scheduler="synchronous"):
            ddf = dd.from_pandas(fresh(P), npartitions=2)

            def body(i):
                def f():
                    fs = VerifFS(yield_hook=lambda n, name, p: sched.maybe_yield(f"fs:{name}"))
                    ret = ddf.pack_partitions_to_parquet(os.path.join(work, f"out{i}.parq"), filesystem=fs, npartitions=3, p=6,
                                                         tempdir_format=fmt, _retry_args=RETRY)
                    return rows(ret.compute())
                return f
            if chooser is None:
                res = [body(0)(), body(1)()]
                exc = [None, None]
            else:
                res, exc, _ = sched.run_threads(chooser, [body(0), body(1)])
        obs = []
        for i in (0, 1):
            st = dataset_state(os.path.join(work, f"out{i}.parq"), os.path.join(work, "tmpbase"))
            obs.append(("EXC:" + type(exc[i]).__name__ + ":" + str(exc[i])[:80]) if exc[i] is not None else
                       json.dumps({"rows": res[i], "state": st}, sort_keys=True, default=str))
        shutil.rmtree(work, ignore_errors=True)
        return tuple(obs)

    serial = run(None, "serial")

    def once(ch):
        return run(ch, "x")

    def on_exec(prefix, obs, points):
        col.count("evaluations")
        col.count("transitions", len(points))
        if obs != serial:
            bad.setdefault(repr(obs)[:400], list(prefix))

    st = sched.explore(once, bound, shard=shard, on_execution=on_exec)
    col.count("states", st["executions"])
    col.count("nontrivial", st["executions"] - 1)
    col.count("exec:e3b:two_packs", st["executions"])
    col.outcome(f"e3b:two_packs:bad={len(bad)}")
    for k, pref in list(bad.items())[:2]:
        col.violation("e3b.two_packs", {"engine": "E3b-packs", "bound": bound, "schedule": pref},
                      f"two concurrent pack_partitions_to_parquet calls: schedule {pref} -> {k[:300]}")
    col.sample({"engine": "E3b", "harness": "two concurrent pack_partitions_to_parquet calls", "bound": bound,
                "executions": st["executions"], "choice_points_default": st["points_default"]})


def run_e3b(col, name, bound, shard, scope="caches"):
    H = e3b_harnesses()
    make, ops = H[name]
    serial = []
    for op in ops:
        serial.append(op(make()))
    serial = tuple(serial)
    codes = cache_code_objects() if scope == "caches" else all_library_code_objects()
    bad = {}

    def once(ch):
        shared = make()
        with sched.LineYield(codes):
            res, exc, trace = sched.run_threads(ch, [(lambda o: (lambda: o(shared)))(o) for o in ops])
        obs = tuple(("EXC:" + type(e).__name__ + ":" + str(e)[:80]) if e is not None else r for r, e in zip(res, exc))
        # the shared object must still answer correctly afterwards
        after = tuple(op(shared) for op in ops)
        return (obs, after)

    def on_exec(prefix, obs, points):
        col.count("evaluations")
        col.count("transitions", len(points))
        if obs != (serial, serial):
            bad.setdefault(repr(obs)[:400], list(prefix))

    st = sched.explore(once, bound, shard=shard, on_execution=on_exec)
    col.count("states", st["executions"])
    col.count("nontrivial", st["executions"] - 1)
    col.count(f"exec:e3b:{scope}:{name}", st["executions"])
    col.outcome(f"e3b:{scope}:{name}:bad={len(bad)}")
    for k, pref in list(bad.items())[:2]:
        col.violation(f"e3b.{name}", {"engine": "E3b", "harness": name, "bound": bound, "schedule": pref, "scope": scope},
                      f"{name}: schedule {pref} -> {k} ; serial result {repr(serial)[:300]}", harness=name)
    col.sample({"engine": "E3b", "harness": name, "scope": scope, "bound": bound, "executions": st["executions"],
                "choice_points_default": st["points_default"]})


# ------------------------------------------------------------------------------------------------
# E3c: prange kernels, iterations as threads, extracted from the current source
# ------------------------------------------------------------------------------------------------
class _PrangeRewriter(ast.NodeTransformer):
    def __init__(self):
        self.found = 0

    def visit_For(self, node):
        self.generic_visit(node)
        it = node.iter
        if isinstance(it, ast.Call) and getattr(it.func, "id", getattr(it.func, "attr", "")) == "prange":
            self.found += 1
            def own_breaks(stmts):
                for st in stmts:
                    if isinstance(st, ast.Break):
                        return True
                    if isinstance(st, (ast.For, ast.While, ast.FunctionDef)):
                        continue            # a break in a nested loop belongs to that loop
                    for fld in ("body", "orelse", "finalbody", "handlers"):
                        if own_breaks(getattr(st, fld, []) or []):
                            return True
                return False
            if own_breaks(node.body):
                raise core.HarnessError("prange body contains break: model extraction does not apply")
            body = _ContinueToReturn().visit(ast.Module(body=node.body, type_ignores=[])).body
            fname = f"__verif_iter_{self.found}__"
            fdef = ast.FunctionDef(name=fname, args=ast.arguments(posonlyargs=[], args=[ast.arg(arg=node.target.id)], kwonlyargs=[],
                                                                 kw_defaults=[], defaults=[]),
                                   body=body, decorator_list=[], type_params=[])
            call = ast.Expr(ast.Call(func=ast.Name(id="__verif_parallel__", ctx=ast.Load()),
                                     args=[it.args[0], ast.Name(id=fname, ctx=ast.Load())], keywords=[]))
            return [fdef, call]
        return node


class _ContinueToReturn(ast.NodeTransformer):
    def visit_Continue(self, node):
        return ast.Return(value=None)

    def visit_For(self, node):      # a continue inside a nested loop keeps its meaning
        return node

    def visit_While(self, node):
        return node


def extract_prange_model(kernel):
    """py_func source of a numba prange kernel -> python function whose prange iterations run through __verif_parallel__"""
    src = textwrap.dedent(inspect.getsource(kernel.py_func))
    tree = ast.parse(src)
    fdef = tree.body[0]
    fdef.decorator_list = []
    rw = _PrangeRewriter()
    tree = rw.visit(tree)
    if rw.found != 1:
        raise core.HarnessError(f"expected exactly one prange loop in {kernel.py_func.__name__}, found {rw.found}")
    ast.fix_missing_locations(tree)
    ns = dict(kernel.py_func.__globals__)
    holder = {}

    def parallel(n, body):
        holder["run"](int(n), body)
    ns["__verif_parallel__"] = parallel
    code = compile(tree, f"<verif-model:{kernel.py_func.__name__}>", "exec")
    exec(code, ns)
    model = ns[fdef.name]
    inner = [c for c in code.co_consts if hasattr(c, "co_code")]
    inner_codes = []

    def collect(c):
        for k in c.co_consts:
            if hasattr(k, "co_code"):
                inner_codes.append(k)
                collect(k)
    collect(code)
    return model, holder, [c for c in inner_codes if c.co_name.startswith("__verif_iter_")]


def e3c_cases():
    """(name, kernel, argument factory) ; argument factories return fresh args; result = the `result` array"""
    from spatialpandas.geometry import baselist
    from spatialpandas.geometry._algorithms import intersection, measures
    cases = []
    lines = L.make_array("line", [((0, 0), (3, 4)), None, ((1, 1), (1, 5), (4, 5)), ()], "float64")
    polys = L.make_array("polygon", [(sq(0, 0, 2, 2), sq(0.5, 0.5, 1, 1)[::-1]), None, (sq(1, 1, 4, 5),), ()], "float64")
    mpolys = L.make_array("multipolygon", [((sq(0, 0, 2, 2),), (sq(3, 3, 4, 4),)), None, ((sq(1, 1, 4, 5),),), ()], "float64")

    def mapargs(arr, fn):
        def f():
            return (fn, np.full(len(arr), np.nan), arr.buffer_values, arr.buffer_offsets, arr.isna())
        return f
    cases.append(("map_nested1:length", baselist._geometry_map_nested1, mapargs(lines, measures.compute_line_length), 1))
    cases.append(("map_nested2:area", baselist._geometry_map_nested2, mapargs(polys, measures.compute_area), 1))
    cases.append(("map_nested2:length", baselist._geometry_map_nested2, mapargs(polys, measures.compute_line_length), 1))
    cases.append(("map_nested3:area", baselist._geometry_map_nested3, mapargs(mpolys, measures.compute_area), 1))
    mp = L.make_array("multipoint", [((0, 0), (3, 3)), None, ((5, 5),), ((1, 1), (9, 9))], "float64")

    def mpargs():
        off = mp.buffer_outer_offsets
        return (0.5, 0.5, 4.0, 4.0, mp.buffer_values, off[:-1], off[1:], np.zeros(len(mp), dtype=np.bool_))
    cases.append(("multipoints_intersect_bounds", intersection.multipoints_intersect_bounds, mpargs, 7))
    return cases


def run_e3c(col, bound):
    for name, kernel, mkargs, res_idx in e3c_cases():
        args = mkargs()
        kernel(*args)
        expected = np.nan_to_num(np.asarray(args[res_idx], dtype=float), nan=-9).tolist()
        model, holder, iter_codes = extract_prange_model(kernel)
        bad = {}

        def once(ch):
            a = mkargs()

            def run_parallel(n, body):
                with sched.LineYield(iter_codes):
                    res, exc, trace = sched.run_threads(ch, [(lambda i: (lambda: body(i)))(i) for i in range(n)])
                for e in exc:
                    if e is not None:
                        raise e
            holder["run"] = run_parallel
            try:
                model(*a)
            except Exception as ex:
                return "EXC:" + type(ex).__name__ + ":" + str(ex)[:100]
            return tuple(np.nan_to_num(np.asarray(a[res_idx], dtype=float), nan=-9).tolist())

        def on_exec(prefix, obs, points):
            col.count("evaluations")
            col.count("transitions", len(points))
            if obs != tuple(expected):
                bad.setdefault(repr(obs)[:300], list(prefix))

        st = sched.explore(once, bound, on_execution=on_exec)
        col.count("states", st["executions"])
        col.count("nontrivial", st["executions"] - 1)
        col.count(f"exec:e3c:{name}", st["executions"])
        col.outcome(f"e3c:{name}:bad={len(bad)}")
        for k, pref in list(bad.items())[:1]:
            col.violation(f"e3c.{name}", {"engine": "E3c", "harness": name, "bound": bound, "schedule": pref},
                          f"{name}: iteration interleaving {pref} gives {k}, compiled kernel gives {expected}", harness=name)
        col.sample({"engine": "E3c", "kernel": name, "bound": bound, "executions": st["executions"],
                    "choice_points_default": st["points_default"]})


# ------------------------------------------------------------------------------------------------
# free-running complement (separate process: omp layer, 16 numba threads, real concurrency)
# ------------------------------------------------------------------------------------------------
FREE_SCRIPT = r"""
import json, os, sys, threading
sys.setswitchinterval(1e-6)
import numpy as np
import numba
sys.path[:0] = [os.environ["VERIF_REPO"], "/verif"]
from vf import core
core.bind_repo()
import dask, dask.dataframe as dd
from vf.checks import c18
from spatialpandas import sjoin
tier = sys.argv[1]
scratch = sys.argv[2]
P = c18.frame6()
R = c18.right_polys()
H = c18.e3b_harnesses()
out = {"runs": 0, "bad": []}

def dask_ops(sched_name, nw):
    kw = dict(scheduler=sched_name) if sched_name == "synchronous" else dict(scheduler=sched_name, num_workers=nw)
    d = dd.from_pandas(P, npartitions=3)
    g = dd.from_pandas(P.set_geometry("polys"), npartitions=3).geometry
    res = [c18.rows(d.cx[-1:4, -1:8].compute(**kw)),
           tuple(sorted(c18.rows(sjoin(d, R, how="left").compute(**kw)))),
           tuple(np.nan_to_num(g.area.compute(**kw).values, nan=-9).tolist()),
           tuple(np.nan_to_num(g.length.compute(**kw).values, nan=-9).tolist()),
           tuple(map(tuple, np.nan_to_num(g.bounds.compute(**kw).values, nan=-9).tolist())),
           tuple(g.intersects_bounds((1, 1, 6, 6)).compute(**kw).tolist())]
    with dask.config.set(**kw):
        r = d.pack_partitions(npartitions=2, p=6)
        res.append(tuple(c18.rows(x.compute()) for x in r.to_delayed()))
        w = os.path.join(scratch, "free-%s-%d" % (sched_name, nw))
        ret = d.pack_partitions_to_parquet(w, npartitions=4, p=6, _retry_args=c18.RETRY, overwrite=True)
        res.append(c18.rows(ret.compute()))
        from spatialpandas.io import read_parquet_dask
        res.append(c18.rows(read_parquet_dask(w).compute()))
    return tuple(res)

import time
from fsspec.implementations.local import LocalFileSystem
class SlowFS(LocalFileSystem):
    # a filesystem on which the files of ONE dataset answer later than the others (delays perturb completion order)
    cachable = False
    def __init__(self, slow=None, **kw):
        super().__init__(**kw)
        self.slow = slow
    def _open(self, path, mode="rb", **kw):
        if self.slow and self.slow in str(path):
            time.sleep(0.03)
        return super()._open(path, mode=mode, **kw)

_multi = []
def multi_read(slow):
    from spatialpandas.io import read_parquet_dask
    if not _multi:
        a, b, c = (os.path.join(scratch, "free-m%s.parq" % x) for x in "ABC")
        dd.from_pandas(P, npartitions=3).to_parquet(a)
        dd.from_pandas(P.iloc[:3], npartitions=2).to_parquet(b)
        dd.from_pandas(P.iloc[4:], npartitions=1).to_parquet(c)
        _multi.extend([a, b, c])
    r = read_parquet_dask(list(_multi), filesystem=SlowFS(slow))
    g = r.geometry
    return (tuple(map(tuple, np.nan_to_num(g.partition_bounds.values, nan=-9).tolist())),
            c18.rows(r.cx[-1:4, -1:8].compute(scheduler="synchronous")),
            c18.rows(read_parquet_dask(list(_multi), filesystem=SlowFS(slow), bounds=(-1, -1, 4, 8)).compute(scheduler="synchronous")))

import math
def big_shapes():
    from spatialpandas.geometry import PolygonArray, LineArray, MultiPolygonArray
    rings = []
    for k in range(6):
        n = 400 + 37 * k
        pts = []
        for i in range(n):
            a = 2 * math.pi * i / n
            r = 1.0 + 0.3 * math.sin(5 * a + k) + 1e-3 * k
            pts += [math.pi * k + r * math.cos(a), math.e + r * math.sin(a)]
        pts += pts[:2]
        rings.append(pts)
    pa = PolygonArray([[r] for r in rings] + [None])
    la = LineArray(rings + [None])
    ma = MultiPolygonArray([[[rings[0]], [rings[1]]], [[rings[2]]], None])
    return pa, la, ma

def measures():
    pa, la, ma = big_shapes()
    out = []
    for a in (pa, la, ma):
        out.append(tuple(np.nan_to_num(np.asarray(a.area), nan=-9).tolist()))
        out.append(tuple(np.nan_to_num(np.asarray(a.length), nan=-9).tolist()))
        out.append(tuple(map(tuple, np.nan_to_num(np.asarray(a.bounds), nan=-9).tolist())))
        out.append(tuple(np.asarray(a.intersects_bounds((0.5, 2.0, 4.0, 3.5))).tolist()))
    out.append(tuple(pa[0].area.hex() if hasattr(pa[0].area, "hex") else float(pa[0].area).hex() for _ in (0,)))
    # many elements with 1..3 parts each (per-element scratch state in a parallel loop) and inputs beyond any chunking threshold
    from spatialpandas.geometry import MultiPolygonArray, PointArray, MultiLineArray
    from spatialpandas.spatialindex import hilbert_curve as hc
    def sqr(x, y):
        return [x, y, x + 1.0, y, x + 1.0, y + 1.0, x, y + 1.0, x, y]
    mm = MultiPolygonArray([[[sqr(float(i % 17 + 3 * j), float((i * 7) % 13))] for j in range(1 + i % 3)] for i in range(600)])
    ml = MultiLineArray([[sqr(float(i % 17 + 3 * j), float((i * 7) % 13))[:6] for j in range(1 + i % 3)] for i in range(600)])
    for bx in ((2.5, 1.5, 9.5, 6.5), (19.2, 0.2, 19.8, 0.8), (0.0, 0.0, 1.0, 1.0)):
        out.append(tuple(np.asarray(mm.intersects_bounds(bx)).tolist()))
        out.append(tuple(np.asarray(ml.intersects_bounds(bx)).tolist()))
    out.append(tuple(np.asarray(mm.area).tolist()))
    coords = ((np.arange(20001 * 2, dtype=np.int64).reshape(-1, 2) * 2654435761) % 1024).astype(np.int64)
    d = hc.distances_from_coordinates(10, coords)
    out.append(tuple(int(v) for v in d[::7]) + tuple(int(v) for v in d[-8:]))
    out.append(tuple(int(hc.distance_from_coordinate(10, coords[k].copy())) for k in (0, 1, 20000, 19999, 16384, 16383)))
    pts = PointArray(coords.astype(np.float64))
    h = pts.hilbert_distance(total_bounds=(0.0, 0.0, 1024.0, 1024.0), p=10)
    out.append(tuple(int(v) for v in np.asarray(h)[::5]) + tuple(int(v) for v in np.asarray(h)[-8:]))
    out.append(tuple(np.asarray(pts.intersects_bounds((100.0, 100.0, 600.0, 700.0)))[::3].tolist()))
    return tuple(out)

numba.set_num_threads(1)
ref_measures = measures()
ref_dask = dask_ops("synchronous", 1)
ref_multi = multi_read(None)
for slow in ("free-mA", "free-mB", "free-mC", None):
    out["runs"] += 1
    if multi_read(slow) != ref_multi:
        out["bad"].append({"what": "read_parquet_dask_depends_on_read_latency", "slow_dataset": slow})
grid_nt = [1, 2, 4, 16]
grid_nw = [1, 2, 4, 16] if tier == "thorough" else [2, 16]
for nt in grid_nt:
    numba.set_num_threads(min(nt, numba.config.NUMBA_NUM_THREADS))
    out["runs"] += 1
    if measures() != ref_measures:
        out["bad"].append({"what": "measures_depend_on_numba_threads", "numba_threads": nt})
    for (sn, nw) in [("synchronous", 1)] + [("threads", w) for w in grid_nw]:
        out["runs"] += 1
        got = dask_ops(sn, nw)
        if got != ref_dask:
            out["bad"].append({"what": "dask", "numba_threads": nt, "scheduler": sn, "num_workers": nw})
    # N client threads sharing one object (first access builds the caches)
    for name, (make, ops) in H.items():
        serial = tuple(op(make()) for op in ops)
        def once(N):
            shared = make()
            results = [None] * N
            barrier = threading.Barrier(N)
            def body(i):
                barrier.wait()
                try:
                    results[i] = ops[i % len(ops)](shared)
                except Exception as ex:
                    results[i] = "EXC:" + type(ex).__name__ + ":" + str(ex)[:80]
            ths = [threading.Thread(target=body, args=(i,)) for i in range(N)]
            [t.start() for t in ths]; [t.join() for t in ths]
            out["runs"] += 1
            for i in range(N):
                if results[i] != serial[i % len(ops)]:
                    return repr(results[i])[:200]
            return None
        for N in ([2, 4, 16] if tier == "thorough" else [4, 16]):
            for rep in range(3 if tier == "thorough" else 1):
                first = once(N)
                if first is not None:
                    # a free-running run is a sample, not a schedule we own: report only what reproduces (the deciding,
                    # exhaustive exploration of these same bodies is the controlled one)
                    again = [once(N) for _ in range(10)]
                    nbad = sum(1 for a in again if a is not None)
                    if nbad >= 2:
                        out["bad"].append({"what": "threads:" + name, "numba_threads": nt, "N": N, "got": first,
                                           "reproduced": "%d of 10 repetitions" % nbad})
                    else:
                        out["unreproduced"] = out.get("unreproduced", 0) + 1
print("FREE-RESULT " + json.dumps(out))
"""


def run_free(col, scratch, tier):
    env = dict(os.environ)
    env["NUMBA_THREADING_LAYER"] = "omp"
    env["NUMBA_NUM_THREADS"] = "16"
    env["VERIF_REPO"] = core.REPO
    env["PYTHONPATH"] = f"{core.REPO}:/verif"
    env.pop("NUMBA_BOUNDSCHECK", None)
    path = os.path.join(scratch, "free_run.py")
    with open(path, "w") as f:
        f.write(FREE_SCRIPT)
    try:
        r = subprocess.run([sys.executable, "-u", path, tier, scratch], env=env, capture_output=True, text=True,
                           timeout=3000 if tier == "thorough" else 900)
    except subprocess.TimeoutExpired:
        raise core.HarnessError("free-running grid timed out")
    line = [ln for ln in r.stdout.splitlines() if ln.startswith("FREE-RESULT ")]
    if r.returncode != 0 or not line:
        raise core.HarnessError(f"free-running grid failed: rc={r.returncode} {r.stderr[-800:]}")
    out = json.loads(line[0][len("FREE-RESULT "):])
    col.count("free_running_runs", out["runs"])
    col.count("free_running_unreproduced_deviations", out.get("unreproduced", 0))
    col.count("evaluations", out["runs"])
    for b in out["bad"][:3]:
        col.violation("free_running." + b["what"], {"engine": "free", **b}, f"free-running run differs from the serial result: {b}",
                      what=b["what"])


# ------------------------------------------------------------------------------------------------
# driver
# ------------------------------------------------------------------------------------------------
def plan(ctx):
    return plan_for(ctx.thorough)


def plan_for(T):
    units = []
    for name in ("cx", "sjoin", "rowwise", "pack_partitions", "pack_to_parquet:default", "pack_to_parquet:external", "read_parquet_dask"):
        heavy = name.startswith("pack_to_parquet")
        for W in (1, 2, 3):
            if T:
                bound = 2
            else:
                bound = 2 if name in ("cx", "read_parquet_dask") else 1
                if heavy and W == 3:
                    continue
            nsh = 8 if heavy else (4 if (T and name in ("rowwise", "pack_partitions")) else 1)
            for sh in range(nsh):
                units.append(("e3a", name, W, bound, (sh, nsh)))
    for name in ("pack_to_parquet:ties:creation", "pack_to_parquet:ties:creation_desc", "pack_to_parquet:ties-external:creation"):
        if not T and not name.endswith(":creation"):
            continue
        for W in (1, 2, 3) if T else (1, 2):
            if not T and W == 1 and "external" in name:
                continue
            for sh in range(8):
                units.append(("e3a", name, W, 2 if T else 1, (sh, 8)))
    units.append(("listing", None, None, None, None))
    for name in e3b_names():
        if T:
            bound, nsh = 2, (8 if name.startswith("dask") else 2)
        else:
            bound = 1 if (name.startswith("dask") or name.count("|") >= 2) else 2
            nsh = 2
        for sh in range(nsh):
            units.append(("e3b", name, "caches", bound, (sh, nsh)))
        # every line of the whole library as a pre-emption point: bound 1 (2 in thorough for the array harnesses)
        if name.startswith("dask") and not T:
            continue        # thousands of line events per execution: thorough only
        b_all = 2 if (T and name.startswith("array") and name.count("|") == 1) else 1
        nsh_all = 4 if b_all == 2 else (16 if name.startswith("dask") else 1)
        for sh in range(nsh_all):
            units.append(("e3b", name, "all", b_all, (sh, nsh_all)))
    for sh in range(8):
        units.append(("packs", None, None, 2 if T else 1, (sh, 8)))
    units.append(("e3c", None, None, 2, None))
    only = os.environ.get("VERIF_C18_ONLY")
    if only:
        units = [u for u in units if u[0] in only.split(",")]
    units.append(("free", None, None, None, None))
    return units


def e3b_names():
    return ["points:ib|ib", "points:cx|xy|ib", "array:cx|query", "array:build|cx", "array:query|covers", "array:cx|cx", "array:pickle|query",
            "array:total_bounds|query|cx", "frame:cx|series.cx", "frame:build|cx", "dask:cx|partition_bounds", "dask:cx|cx",
            "dask:total_bounds|cx"]


def run(ctx):
    scratch = ctx.scratch()
    units = plan(ctx)
    # warm kernels in the parent
    P = frame6()
    P.cx[0:1, 0:1]
    P.set_geometry("polys").cx[0:1, 0:1]
    a = L.make_array("polygon", [(sq(0, 0, 2, 2),)], "float64")
    a.build_sindex().sindex.intersects((0.0, 0.0, 1.0, 1.0))
    a.sindex.covers_overlaps((0.0, 0.0, 1.0, 1.0))
    P["pts"].hilbert_distance(p=6)

    budget = 2700 if ctx.thorough else 900          # seconds of exploration; afterwards units stop and report the cap
    t_deadline = time.time() + budget

    def work(col, i):
        kind, name, W, bound, shard = units[i]
        sched.DEADLINE[0] = t_deadline
        sched.HEARTBEAT[0] = os.path.join(scratch, f"hb-{os.getpid()}")
        # ./check exports OMP_NUM_THREADS=1, which Arrow takes as the size of its CPU pool; a managed thread
        # suspended inside an Arrow filesystem callback then starves the other thread's read (harness deadlock)
        import pyarrow as pa
        pa.set_cpu_count(8)
        pa.set_io_thread_count(8)
        if kind == "free":
            run_free(col, scratch, ctx.tier)
            return
        # a lock owned by the library is a scheduling point for managed threads (a real block would hang the explorer)
        sched.CAPPED[0] = 0
        with sched.cooperative_locks():
            if kind == "e3a":
                run_e3a(col, scratch, name, W, bound, shard)
            elif kind == "e3b":
                run_e3b(col, name, bound, shard, scope=W)
            elif kind == "listing":
                run_listing(col, scratch)
            elif kind == "e3c":
                run_e3c(col, bound)
            elif kind == "packs":
                run_two_packs(col, scratch, bound, shard)
        col.count("units_run")
        if sched.CAPPED[0]:
            col.count("units_capped_by_time_budget")
            col.note(f"capped: {kind} {name} W/scope={W} bound={bound} shard={shard}")

    # the free-running grid needs the cores for itself: run it first, alone
    order = [i for i, u in enumerate(units) if u[0] == "free"] + [i for i, u in enumerate(units) if u[0] != "free"]
    c0 = core.Collector()
    work(c0, order[0])
    ctx.col.merge(c0.dump())
    # the units of the quick plan (lower bounds) come first: whatever the time budget allows beyond them is explored after
    quick_units = set(plan_for(False))
    rest = sorted(order[1:], key=lambda i: (units[i] not in quick_units, i))
    t_deadline = time.time() + budget
    try:
        core.pmap(ctx, lambda col, j: work(col, rest[j]), len(rest), timeout=budget + 1500)
    except core.HarnessError as ex:
        if "timed out" not in str(ex):
            raise
        # slow or stuck?  every execution touches a heartbeat file
        beats = [os.path.getmtime(os.path.join(scratch, f)) for f in os.listdir(scratch) if f.startswith("hb-")]
        if beats and time.time() - max(beats) < 600:
            raise core.HarnessError("schedule exploration still making progress when its time limit ran out (overloaded machine?)")
        ctx.col.violation("hang", {"engine": "pool"}, "no managed execution finished during the last 10 minutes of the time limit "
                          "(deadlock or hang of a managed thread / kernel): " + str(ex))
    c = ctx.col.counters
    ctx.coverage_extra.update({
        "states": int(c.get("states", 0)), "transitions": int(c.get("transitions", 0)),
        "traces_validated_against_impl": int(c.get("states", 0)),
        "free_running_runs": int(c.get("free_running_runs", 0)),
        "units_run": int(c.get("units_run", 0)), "units_capped_by_time_budget": int(c.get("units_capped_by_time_budget", 0)),
        "time_budget_s": budget,
        "explanation": "states = complete schedules executed on the real code (each is an implementation trace); transitions = "
                       "scheduling decisions taken; deviation bound per harness in the samples; the free-running grid is a "
                       "complement (uncontrolled schedules), not part of the exhaustive claim",
    })
    ctx.rule = ("E3a: all schedules of the controlled Dask scheduler with W in {1,2,3} workers and <= bound deviations from the "
                "default order, yield points at task start/end and at every filesystem call; E3b: 2-3 client threads on one "
                "fresh shared object, pre-empted at every line of the cache-building methods, <= bound pre-emptions; E3c: "
                "prange iterations as threads on the kernels' own source, all interleavings within 2 pre-emptions. "
                "distinct_nontrivial = schedules that deviate from the default one.")
    ctx.assumptions = ["numba kernels and pandas/pyarrow C code are atomic steps between yield points",
                       "the compiled parallel execution of prange kernels is only covered by the free-running grid"]


def replay(ctx, case):
    col = core.Collector()
    scratch = ctx.scratch()
    eng = case.get("engine")
    if eng == "E3a":
        H = e3a_harnesses(scratch)
        ref = H[case["harness"]](sched.Chooser([]), case["workers"])
        got = H[case["harness"]](sched.Chooser(case["schedule"]), case["workers"])
        if ref != got:
            col.violation("e3a." + case["harness"], case, "schedule still gives a different result")
    elif eng == "E3a-listing":
        run_listing(col, scratch)
    elif eng == "E3b":
        run_e3b(col, case["harness"], case["bound"], None, scope=case.get("scope", "caches"))
    elif eng == "E3c":
        run_e3c(col, case["bound"])
    elif eng == "E3b-packs":
        run_two_packs(col, scratch, case["bound"], None)
    else:
        run_free(col, scratch, "quick")
    return col.violations
