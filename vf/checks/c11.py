"""C11 -- parquet round trips are lossless for every geometry type.

E1: pandas path = kind x subtype x array variant (plain with missing+empty, sliced with non-zero
offset, concatenated, all-missing) x index kind x compression (full product), several geometry
columns per frame, every ordered column projection; Dask path = kind x subtype x partitions
{1,2,3,11,12} x index kind x compression, list and glob of datasets whose textual and numeric
order differ.  Oracle: the frame that was written.
"""
import itertools
import os
import shutil

import numpy as np

from .. import core
from .. import lattice as L
from .. import oracle as O
from .c13 import pools

LEVEL = "exploration"
INDEX_KINDS = ("default", "named", "unnamed_nondefault", "nonunique", "hilbert_distance")
COMPRESSIONS = ("snappy", "gzip", None)
VARIANTS = ("plain", "sliced", "concat", "all_missing")


def elems_for(kind, st, n=None):
    pool = pools(kind, False)
    if kind == "point" and st.startswith("float"):
        pool = pool + [()]
    el = [pool[0], None] + pool[1:] + [pool[0]]
    if n:
        el = [el[i % len(el)] for i in range(n)]
    return el


def make_variant(kind, st, variant, n=None):
    el = elems_for(kind, st, n)
    if variant == "plain":
        return L.make_array(kind, el, st)
    if variant == "sliced":
        return L.make_array(kind, [el[-1]] + el + [el[0]], st)[1:-1]
    if variant == "concat":
        a = L.make_array(kind, el, st)
        k = len(el) // 2
        return type(a)._concat_same_type([a[k:], a[:k]])[list(range(len(el) - k, len(el))) + list(range(0, len(el) - k))]
    if variant == "all_missing":
        return L.make_array(kind, [None] * len(el), st)
    raise ValueError(variant)


def make_index(kind, n):
    import pandas as pd
    if kind == "default":
        return pd.RangeIndex(n)
    if kind == "named":
        return pd.Index(np.arange(n) * 3 + 7, name="k")
    if kind == "unnamed_nondefault":
        return pd.Index(np.arange(n) * 2 + 5)
    if kind == "nonunique":
        return pd.Index([("a", "b", "c", "d")[i * 4 // max(n, 1)] for i in range(n)], dtype=object, name="lab")
    if kind == "hilbert_distance":
        return pd.Index(np.arange(n) * 11, name="hilbert_distance")
    raise ValueError(kind)


def frame_sig(df):
    """everything the statement says must survive: type, columns, dtypes, elements, other values, index"""
    from spatialpandas.geometry import GeometryDtype
    sig = {"type": type(df).__name__, "columns": [str(c) for c in df.columns], "dtypes": {}, "values": {},
           "index": [str(type(v).__name__) + ":" + str(v) for v in df.index.tolist()],
           "index_name": df.index.name}
    for c in df.columns:
        dt = df[c].dtype
        if isinstance(dt, GeometryDtype):
            sig["dtypes"][c] = str(dt)
            sig["values"][c] = df[c].array.data.to_pylist()
        else:
            sig["dtypes"][c] = "other"
            sig["values"][c] = [None if (isinstance(v, float) and v != v) else v for v in df[c].tolist()]
    return sig


def diff_sig(a, b):
    for k in ("type", "columns", "dtypes", "index_name", "index"):
        if a[k] != b[k]:
            return f"{k}: written {a[k]!r} read {b[k]!r}"
    for c in a["columns"]:
        if a["values"][c] != b["values"][c]:
            return f"values of column {c}: written {a['values'][c]} read {b['values'][c]}"
    return None


def intended(kind, st, variant):
    """the element values the frame is MEANT to hold, as plain numbers (independent of the array objects)"""
    el = elems_for(kind, st)
    if variant == "all_missing":
        el = [None] * len(el)
    out = []
    for e in el:
        v = L.to_nested(kind, e)
        out.append(v)
    return out


def decoded(kind, st, pyval):
    if pyval is None:
        return None
    if kind == "point":
        return np.frombuffer(pyval, dtype=st).tolist()
    return pyval


def same_numbers(a, b):
    if a is None or b is None:
        return a is None and b is None
    if isinstance(a, (list, tuple)):
        return isinstance(b, (list, tuple)) and len(a) == len(b) and all(same_numbers(x, y) for x, y in zip(a, b))
    if isinstance(a, float) and a != a:
        return isinstance(b, float) and b != b
    return a == b


def pandas_roundtrip(col, scratch, kind, st, variant, ikind, comp):
    from spatialpandas import GeoDataFrame
    from spatialpandas.io import read_parquet, to_parquet
    case = {"path": "pandas", "kind": kind, "subtype": st, "variant": variant, "index": ikind, "compression": comp}
    col.count("evaluations")
    try:
        arr = make_variant(kind, st, variant)
        n = len(arr)
        df = GeoDataFrame({"v": np.arange(n) * 1.5, "g": arr, "s": [f"s{i}" for i in range(n)]}, index=make_index(ikind, n))
        path = os.path.join(scratch, f"p{os.getpid()}.parq")
        to_parquet(df, path, compression=comp)
        r = read_parquet(path)
        os.unlink(path)
    except Exception as ex:
        col.violation("pandas.raises", case, f"{type(ex).__name__}: {str(ex)[:250]}", kind=kind, variant=variant)
        return
    if variant != "all_missing":
        col.count("nontrivial")
    d = diff_sig(frame_sig(df), frame_sig(r))
    if d:
        col.violation("pandas.roundtrip", case, d, kind=kind, variant=variant, index=ikind)
    # kind + coordinate subtype and the numbers themselves, against the intended content
    want_dtype = f"{kind}[{st}]"
    if str(df["g"].dtype) != want_dtype or str(r["g"].dtype) != want_dtype:
        col.violation("pandas.dtype", case, f"dtype written {df['g'].dtype} read {r['g'].dtype}, intended {want_dtype}", kind=kind)
    want = intended(kind, st, variant)
    got = [decoded(kind, st, v) for v in r["g"].array.data.to_pylist()]
    if not same_numbers(want, got):
        col.violation("pandas.values", case, f"read back {got[:3]}.. intended {want[:3]}..", kind=kind)
    col.outcome(f"pd:{variant}")


def multi_column_and_projections(col, scratch, st, ikind, comp):
    """several geometry columns per frame; every ordered projection of size <= 2 (with a geometry column)"""
    from spatialpandas import GeoDataFrame
    from spatialpandas.io import read_parquet, to_parquet
    n = 5
    data = {"v": np.arange(n)}
    for kind in O.KINDS:
        data["g_" + kind] = make_variant(kind, st, "plain", n)
    data["w"] = [f"w{i}" for i in range(n)]
    df = GeoDataFrame(data, index=make_index(ikind, n), geometry="g_line")
    path = os.path.join(scratch, f"m{os.getpid()}.parq")
    case0 = {"path": "pandas_multi", "subtype": st, "index": ikind, "compression": comp}
    try:
        to_parquet(df, path, compression=comp)
        r = read_parquet(path)
    except Exception as ex:
        col.violation("multi.raises", case0, f"{type(ex).__name__}: {str(ex)[:250]}")
        return
    col.count("evaluations")
    d = diff_sig(frame_sig(df), frame_sig(r))
    if d:
        col.violation("multi.roundtrip", case0, d)
    cols = list(df.columns)
    geo = [c for c in cols if c.startswith("g_")]
    idx_name = df.index.name
    projections = [(c,) for c in geo] + [p for p in itertools.permutations(cols, 2) if any(c in geo for c in p)]
    if idx_name:
        projections += [(idx_name, geo[0]), (geo[1], idx_name), (geo[2], "v", idx_name)]
    for proj in projections:
        col.count("evaluations")
        col.count("nontrivial")
        case = dict(case0, columns=list(proj))
        try:
            arg = list(proj)
            rp = read_parquet(path, columns=arg)
            if arg != list(proj):
                col.violation("projection.argument_modified", case, f"columns argument {list(proj)} was changed to {arg}")
        except Exception as ex:
            col.violation("projection.raises", case, f"{type(ex).__name__}: {str(ex)[:250]}")
            continue
        want_cols = [c for c in proj if c != idx_name]
        exp = frame_sig(df[want_cols])
        got = frame_sig(rp)
        d = diff_sig(exp, got)
        if d:
            col.violation("projection", case, f"columns={list(proj)}: {d}", index=ikind)
    os.unlink(path)


def dask_roundtrip(col, scratch, kind, st, nparts, ikind, comp):
    import dask.dataframe as dd
    from spatialpandas import GeoDataFrame
    from spatialpandas.dask import DaskGeoDataFrame
    from spatialpandas.io import read_parquet_dask
    case = {"path": "dask", "kind": kind, "subtype": st, "npartitions": nparts, "index": ikind, "compression": comp}
    col.count("evaluations")
    n = 13
    path = os.path.join(scratch, f"d{os.getpid()}.parq")
    try:
        arr = make_variant(kind, st, "plain", n)
        other = make_variant("point" if kind != "point" else "line", "float64", "plain", n)
        df = GeoDataFrame({"v": np.arange(n) * 2, "g": arr, "o": other}, index=make_index(ikind, n), geometry="g")
        ddf = dd.from_pandas(df, npartitions=nparts)
        written = ddf.compute(scheduler="synchronous")
        wparts = ddf.npartitions
        ddf.to_parquet(path, compression=comp)
        r = read_parquet_dask(path)
        rc = r.compute(scheduler="synchronous")
    except Exception as ex:
        col.violation("dask.raises", case, f"{type(ex).__name__}: {str(ex)[:250]}", kind=kind)
        shutil.rmtree(path, ignore_errors=True)
        return
    col.count("nontrivial")
    if not isinstance(r, DaskGeoDataFrame):
        col.violation("dask.type", case, f"read_parquet_dask returned {type(r).__name__}")
    if r.npartitions != wparts:
        col.violation("dask.npartitions", case, f"written {wparts} partitions, read {r.npartitions}")
    d = diff_sig(frame_sig(written), frame_sig(rc))
    if d:
        col.violation("dask.roundtrip", case, d, kind=kind, index=ikind)
    # meta agrees with the data
    if [str(c) for c in r._meta.columns] != [str(c) for c in rc.columns] or {c: str(t) for c, t in r._meta.dtypes.items()} != {c: str(t) for c, t in rc.dtypes.items()}:
        col.violation("dask.meta", case, f"meta {dict(r._meta.dtypes)} vs data {dict(rc.dtypes)}")
    # column projection through the dask reader
    try:
        rp = read_parquet_dask(path, columns=["g", "v"]).compute(scheduler="synchronous")
        col.count("evaluations")
        d = diff_sig(frame_sig(written[["g", "v"]]), frame_sig(rp))
        if d:
            col.violation("dask.projection", case, d)
    except Exception as ex:
        col.violation("dask.projection.raises", case, f"{type(ex).__name__}: {str(ex)[:250]}")
    # second generation: the frame that was read is written again and read again (its divisions are unknown, its
    # partitions come from files, not from from_pandas)
    try:
        path2 = path + ".gen2"
        r.to_parquet(path2, compression=comp)
        r2 = read_parquet_dask(path2).compute(scheduler="synchronous")
        col.count("evaluations")
        d = diff_sig(frame_sig(written), frame_sig(r2))
        if d:
            col.violation("dask.second_generation", case, d, index=ikind)
        sel = r[r["v"] >= 6]
        sel.to_parquet(path2, compression=comp, overwrite=True)
        r3 = read_parquet_dask(path2).compute(scheduler="synchronous")
        col.count("evaluations")
        d = diff_sig(frame_sig(written[written["v"] >= 6]), frame_sig(r3))
        if d:
            col.violation("dask.second_generation_selection", case, d, index=ikind)
        shutil.rmtree(path2, ignore_errors=True)
    except Exception as ex:
        col.violation("dask.second_generation.raises", case, f"{type(ex).__name__}: {str(ex)[:250]}")
    # the pandas reader on the multi-file dataset (one arrow chunk per file)
    try:
        from spatialpandas.io import read_parquet
        rd = read_parquet(path)
        col.count("evaluations")
        # file order of the pandas reader is not part of the statement: compare the rows as a set
        d = diff_sig(frame_sig(written.sort_values("v")), frame_sig(rd.sort_values("v")))
        if d:
            col.violation("dask.read_with_pandas_reader", case, d, nparts=wparts)
    except Exception as ex:
        col.violation("dask.read_with_pandas_reader.raises", case, f"{type(ex).__name__}: {str(ex)[:250]}")
    shutil.rmtree(path, ignore_errors=True)
    col.outcome(f"dd:np={wparts}")


def multi_dataset(col, scratch, st, how):
    """several datasets through a list / glob: concatenated in path order"""
    import dask.dataframe as dd
    import pandas as pd
    from spatialpandas import GeoDataFrame
    from spatialpandas.io import read_parquet_dask
    base = os.path.join(scratch, f"multi{os.getpid()}-{how}")
    shutil.rmtree(base, ignore_errors=True)
    os.makedirs(base)
    names = ["d10.parq", "d9.parq", "d2.parq"]
    frames = {}
    for j, nm in enumerate(names):
        n = 4
        df = GeoDataFrame({"v": np.arange(n) + 100 * j, "g": make_variant("polygon", st, "plain", n)},
                          index=pd.Index(np.arange(n) + 10 * j, name="k"))
        dd.from_pandas(df, npartitions=2).to_parquet(os.path.join(base, nm))
        frames[nm] = df
    case = {"path": "multi", "subtype": st, "how": how}
    col.count("evaluations")
    col.count("nontrivial")
    try:
        if how == "list":
            order = names
            r = read_parquet_dask([os.path.join(base, nm) for nm in order])
        elif how == "list_reversed":
            order = names[::-1]
            r = read_parquet_dask([os.path.join(base, nm) for nm in order])
        else:
            order = sorted(names)          # expansion order of the glob = sorted paths
            r = read_parquet_dask(os.path.join(base, "d*.parq"))
        rc = r.compute(scheduler="synchronous")
    except Exception as ex:
        col.violation("multi.raises", case, f"{type(ex).__name__}: {str(ex)[:250]}")
        shutil.rmtree(base, ignore_errors=True)
        return
    want = pd.concat([frames[nm] for nm in order])
    d = diff_sig(frame_sig(GeoDataFrame(want)), frame_sig(rc))
    if d:
        col.violation("multi.order", case, f"{how}: {d}")
    shutil.rmtree(base, ignore_errors=True)


def argument_variants(col, scratch, kind, st):
    """the same round trips through the rarely used arguments: explicit fsspec filesystem object / protocol name,
    build_sindex=True on the Dask reader"""
    import dask.dataframe as dd
    from fsspec.implementations.local import LocalFileSystem
    from spatialpandas import GeoDataFrame
    from spatialpandas.io import read_parquet, read_parquet_dask, to_parquet
    n = 13
    df = GeoDataFrame({"v": np.arange(n) * 2, "g": make_variant(kind, st, "plain", n)}, index=make_index("named", n))
    case = {"path": "args", "kind": kind, "subtype": st}
    base = os.path.join(scratch, f"a{os.getpid()}")
    shutil.rmtree(base, ignore_errors=True)
    os.makedirs(base)
    try:
        fs = LocalFileSystem()
        for tag, wkw, rkw in (("fs-object", {"filesystem": fs}, {"filesystem": fs}), ("fs-name", {}, {"filesystem": "file"}),
                              ("storage_options", {"storage_options": {}}, {"storage_options": {}})):
            col.count("evaluations")
            p1 = os.path.join(base, f"{tag}.parq")
            to_parquet(df, p1, **wkw)
            d = diff_sig(frame_sig(df), frame_sig(read_parquet(p1, **rkw)))
            if d:
                col.violation("args.pandas", dict(case, variant=tag), d)
            col.count("evaluations")
            p2 = os.path.join(base, f"{tag}-dask.parq")
            ddf = dd.from_pandas(df, npartitions=3)
            ddf.to_parquet(p2, **wkw)
            r = read_parquet_dask(p2, **rkw)
            d = diff_sig(frame_sig(ddf.compute(scheduler="synchronous")), frame_sig(r.compute(scheduler="synchronous")))
            if d:
                col.violation("args.dask", dict(case, variant=tag), d)
        # the same relative path on two filesystems (two roots), the first lazily read frame still referenced while the
        # second is made and while both are computed, separately and together
        import dask
        from fsspec.implementations.dirfs import DirFileSystem
        ra, rb_ = os.path.join(base, "rootA"), os.path.join(base, "rootB")
        os.makedirs(ra), os.makedirs(rb_)
        dfb = GeoDataFrame({"v": np.arange(n) * 2 + 1000, "g": make_variant(kind, st, "plain", n)[::-1]}, index=make_index("named", n))
        ddf.to_parquet(os.path.join(ra, "same.parq"))
        dd.from_pandas(dfb, npartitions=3).to_parquet(os.path.join(rb_, "same.parq"))
        fa, fb = DirFileSystem(ra, fs), DirFileSystem(rb_, fs)
        col.count("evaluations", 3)
        r1 = read_parquet_dask("same.parq", filesystem=fa)
        r2 = read_parquet_dask("same.parq", filesystem=fb)
        c2 = r2.compute(scheduler="synchronous")
        c1 = r1.compute(scheduler="synchronous")
        t1, t2 = dask.compute(r1, r2, scheduler="synchronous")
        for tag, got, want in (("first", c1, df), ("second", c2, dfb), ("together-first", t1, df), ("together-second", t2, dfb)):
            d = diff_sig(frame_sig(want), frame_sig(got))
            if d:
                col.violation("args.two_filesystems", dict(case, variant=tag), f"same path on two filesystems, {tag} read: {d}")
        # a data column that happens to be called hilbert_distance, named in a projection
        col.count("evaluations", 2)
        dfh = GeoDataFrame({"hilbert_distance": np.arange(n) * 7 + 3, "v": np.arange(n), "g": make_variant(kind, st, "plain", n)},
                           index=make_index("named", n))
        ph = os.path.join(base, "hd.parq")
        dd.from_pandas(dfh, npartitions=3).to_parquet(ph)
        for proj in (["hilbert_distance", "g"], ["g", "v", "hilbert_distance"]):
            got = read_parquet_dask(ph, columns=list(proj)).compute(scheduler="synchronous")
            d = diff_sig(frame_sig(dfh[proj]), frame_sig(got))
            if d:
                col.violation("args.hilbert_distance_column", dict(case, variant="columns=%s" % proj), f"columns={proj}: {d}")
        # a Dask frame whose ACTIVE geometry column was projected away / dropped / renamed before it is written
        col.count("evaluations", 3)
        df2 = GeoDataFrame({"g": make_variant(kind, st, "plain", n), "v": np.arange(n), "g2": make_variant(kind, st, "plain", n)[::-1]},
                           index=make_index("named", n), geometry="g")
        d2 = dd.from_pandas(df2, npartitions=3)
        for tag, lazy, want in (("projected", d2[["g2", "v"]], df2[["g2", "v"]]), ("dropped", d2.drop(columns=["g"]), df2.drop(columns=["g"])),
                                ("renamed", d2.rename(columns={"g": "h"}), df2.rename(columns={"g": "h"}))):
            pp = os.path.join(base, f"act-{tag}.parq")
            try:
                lazy.to_parquet(pp)
                got = read_parquet_dask(pp).compute(scheduler="synchronous")
                d = diff_sig(frame_sig(want), frame_sig(got))
                if d:
                    col.violation("args.active_column_gone", dict(case, variant=tag), f"{tag}: {d}")
            except Exception as ex:
                col.violation("args.active_column_gone.raises", dict(case, variant=tag), f"{tag}: {type(ex).__name__}: {str(ex)[:200]}")
        col.count("evaluations")
        rb = read_parquet_dask(p2, build_sindex=True)
        d = diff_sig(frame_sig(ddf.compute(scheduler="synchronous")), frame_sig(rb.compute(scheduler="synchronous")))
        if d:
            col.violation("args.build_sindex", case, d)
    except Exception as ex:
        col.violation("args.raises", case, f"{type(ex).__name__}: {str(ex)[:250]}")
    shutil.rmtree(base, ignore_errors=True)


def plan(ctx):
    T = ctx.thorough
    jobs = []
    for kind in O.KINDS:
        jobs.append(("args", kind, L.SUBTYPES[(O.KINDS.index(kind) + ctx.seed) % 5]))
    for kind in O.KINDS:
        for st in L.SUBTYPES:
            for variant in VARIANTS:
                for ikind in INDEX_KINDS:
                    for comp in COMPRESSIONS:
                        jobs.append(("pd", kind, st, variant, ikind, comp))
    i = 0
    for st in L.SUBTYPES:
        for ikind in INDEX_KINDS:
            i += 1
            jobs.append(("multi", st, ikind, COMPRESSIONS[i % 3]))
    for kind in O.KINDS:
        for st in L.SUBTYPES:
            for nparts in (1, 2, 3, 11, 12):
                i += 1
                iks = INDEX_KINDS if T else (INDEX_KINDS[i % 5], INDEX_KINDS[(i // 5 + 2) % 5])
                for ikind in dict.fromkeys(iks):
                    comps = ("snappy", None) if T else (("snappy", None)[i % 2],)
                    for comp in comps:
                        jobs.append(("dd", kind, st, nparts, ikind, comp))
    for st in ("float64", "int32"):
        for how in ("list", "list_reversed", "glob"):
            jobs.append(("md", st, how))
    return jobs


def run(ctx):
    scratch = ctx.scratch()
    jobs = plan(ctx)
    NCH = 64

    def work(col, ci):
        for j in range(ci, len(jobs), NCH):
            job = jobs[(j + ctx.seed) % len(jobs)]
            if job[0] == "pd":
                pandas_roundtrip(col, scratch, *job[1:])
            elif job[0] == "multi":
                multi_column_and_projections(col, scratch, *job[1:])
            elif job[0] == "dd":
                dask_roundtrip(col, scratch, *job[1:])
            elif job[0] == "args":
                argument_variants(col, scratch, *job[1:])
            else:
                multi_dataset(col, scratch, *job[1:])
            if j % 400 == 0:
                col.sample({"job": [str(x) for x in job]})

    core.pmap(ctx, work, NCH, timeout=7200)
    ctx.coverage_extra["jobs"] = len(jobs)
    ctx.rule = ("pandas: full product kind x subtype x variant x index kind x compression; 7 geometry columns per frame with "
                "every ordered projection of size <= 2 (and projections naming the index); Dask: kind x subtype x partitions "
                "{1,2,3,11,12} with index kind / compression rotating in quick; list / reversed list / glob of three "
                "datasets named d10, d9, d2. Non-trivial = frames with at least one present element.")
    ctx.assumptions = ["the written frame of the Dask path is ddf.compute() (from_pandas sorts by index)",
                       "projections always contain a geometry column (a frame without one cannot be a GeoDataFrame)"]


def replay(ctx, case):
    col = core.Collector()
    s = ctx.scratch()
    if case["path"] == "pandas":
        pandas_roundtrip(col, s, case["kind"], case["subtype"], case["variant"], case["index"], case["compression"])
    elif case["path"] == "pandas_multi":
        multi_column_and_projections(col, s, case["subtype"], case["index"], case["compression"])
    elif case["path"] == "dask":
        dask_roundtrip(col, s, case["kind"], case["subtype"], case["npartitions"], case["index"], case["compression"])
    else:
        multi_dataset(col, s, case["subtype"], case["how"])
    return col.violations
