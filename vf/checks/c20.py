"""C20 -- the active geometry column is honoured and survives frame operations.

E2: BFS over histories of frame operations (pandas and Dask) from frames with three geometry
columns of different kinds whose active column is not the first and not named 'geometry'.
Reference model = (columns, active column, row ids, partition count).  Invariant in every state:
result type, .geometry.name, and *behavioural* probes that reveal which column an operation
really used (cx with boxes on which the columns disagree, build_sindex, sjoin, Hilbert packing,
per-partition active geometry and partition bounds on Dask).
"""
import os
import pickle
import zlib

import numpy as np

from .. import bfs, core

LEVEL = "model_checking"

PTS = [(0, 0), (1, 1), (6, 6), (7, 0), (0, 7)]
LINES = [((6, 6), (7, 7)), ((6, 0), (7, 1)), ((0, 0), (1, 1)), ((0, 6), (1, 7)), ((3, 3), (4, 4))]


def _sq(cx, cy, h=0.5):
    return [cx - h, cy - h, cx + h, cy - h, cx + h, cy + h, cx - h, cy + h, cx - h, cy - h]


POLYS = [_sq(3, 3), _sq(0.5, 6.5), _sq(6.5, 0.5), _sq(0, 0), _sq(6, 6)]
BOXES = {"A": (-0.6, -0.6, 1.5, 1.5), "B": (5.4, 5.4, 7.5, 7.5)}
# which base rows each column selects per box (verified against the library at the root)
SEL = {"pts": {"A": {0, 1}, "B": {2}}, "lines": {"A": {2}, "B": {0}}, "polys": {"A": {3}, "B": {4}}}
GEOM_COLS = ("pts", "lines", "polys")
# probe points for sjoin: which base row of each column a probe point matches
PROBES = [(0.0, 0.0), (6.0, 6.0)]
PROBE_MATCH = {"pts": [{0}, {2}], "lines": [{2}, {0}], "polys": [{3}, {4}]}


THOROUGH = [False]
PTS_NAME = ["pts"]          # naming of the columns in the current exploration: "pts" | "geometry" | "falsy"
# naming "falsy": the empty string (a falsy label) on a geometry column that is not the first one; integer labels
# cannot be mixed with string labels in a Dask frame
NAMINGS = {"pts": {}, "geometry": {"pts": "geometry"}, "falsy": {"lines": ""}}
KEEP = []                   # collections read earlier from the same files, kept referenced on purpose


LAYOUT = ["std"]            # "std": val, pts, lines, polys;  "geomfirst": pts (a non-active geometry column) first, then a string column


def base_cols():
    return ["val", "pts", "lines", "polys"] if LAYOUT[0] == "std" else ["pts", "txt", "val", "lines", "polys"]


def base_frame(active):
    import pandas as pd
    from spatialpandas import GeoDataFrame
    from spatialpandas.geometry import LineArray, PointArray, PolygonArray
    data = {
        "val": np.arange(5) * 10,
        "txt": [f"t{i}" for i in range(5)],
        "pts": PointArray([list(p) for p in PTS]),
        "lines": LineArray([[c for p in l for c in p] for l in LINES]),
        "polys": PolygonArray([[r] for r in POLYS]),
    }
    df = GeoDataFrame({rn(c): data[c] for c in base_cols()}, index=pd.Index([100, 101, 102, 103, 104], name="idx"), geometry=rn(active))
    return df


def rn(c):
    """model column name -> real column name"""
    return NAMINGS[PTS_NAME[0]].get(c, c)


def mn(c):
    """real column name -> model column name"""
    for k, v in NAMINGS[PTS_NAME[0]].items():
        if v == c and type(v) is type(c):
            return k
    return c


class M:
    """reference model"""
    __slots__ = ("kind", "cols", "active", "rows", "nparts", "ordered", "tag")

    def __init__(self, kind, cols, active, rows, nparts=0, ordered=True, tag=""):
        self.kind, self.cols, self.active, self.rows, self.nparts, self.ordered = kind, list(cols), active, list(rows), nparts, ordered
        self.tag = tag

    def key(self):
        return (self.kind, tuple(self.cols), self.active, tuple(self.rows) if self.ordered else tuple(sorted(self.rows)), self.nparts,
                self.tag)

    def geoms(self):
        return [c for c in self.cols if c in GEOM_COLS]


def ops_for(obj, m, depth):
    ops = []
    g = m.geoms()
    if m.kind == "pd":
        n = len(m.rows)
        ops += [("iloc_slice", 1, None), ("copy",), ("pickle",), ("concat",), ("head", 3), ("cx", "A"), ("cx", "B"), ("ctor",), ("concat_empty",), ("astype_same",)]
        if "val" in m.cols:
            ops += [("filter", 20), ("sort",), ("loc_mask",)]
        if n >= 3:
            ops.append(("iloc_list", (2, 0, 1)))
        others = [c for c in m.cols if c != m.active]
        ops += [("cols", (m.active, "val")) if "val" in m.cols else ("cols", (m.active,)),
                ("cols", tuple(reversed(m.cols))), ("cols", (m.active,))]
        if "val" in m.cols:
            ops.append(("cols", ("val", m.active)))
            ops.append(("cols_nogeom",))
        ops += [("nogeom", "isna"), ("nogeom", "notna"), ("nogeom", "astype_object"), ("nogeom", "isin")]
        if len(g) >= 2:
            ops.append(("cols", tuple(c for c in m.cols if c != [x for x in g if x != m.active][0])))
        for o in g:
            if o != m.active:
                ops.append(("set_geometry", o))
        for k in (1, 2, 3):
            ops.append(("to_dask", k))
    else:
        ops += [("d_cx", "A"), ("d_cx", "B"), ("d_pack", 2), ("compute",), ("d_cols", tuple(reversed(m.cols)))]
        if depth <= 1 or THOROUGH[0]:
            ops.append(("d_concat",))
        if "val" in m.cols:
            ops.append(("d_filter", 20))
        if "val" in m.cols:
            ops.append(("d_cols", (m.active, "val")))
        for o in g:
            if o != m.active:
                ops.append(("d_set_geometry", o))
        parquet_ok = True
        for o in (g + [None]) if (depth <= 1 or THOROUGH[0]) else [x for x in g if x != m.active][-1:]:      # a column that is not the first
            if parquet_ok:
                ops.append(("d_parquet", o))
        if depth <= 1:
            ops.append(("d_persist",))
            for o in g:
                if parquet_ok:
                    ops.append(("d_parquet_bounds", o, "A"))
    return ops


def sel_rows(m, box):
    return [r for r in m.rows if r in SEL[m.active][box]]


def apply_model(m, op):
    t = op[0]
    if t == "iloc_slice":
        return M("pd", m.cols, m.active, m.rows[op[1]:op[2]])
    if t == "iloc_list":
        return M("pd", m.cols, m.active, [m.rows[i] for i in op[1]])
    if t in ("filter", "loc_mask"):
        return M("pd", m.cols, m.active, [r for r in m.rows if r * 10 >= 20])
    if t == "sort":
        return M("pd", m.cols, m.active, sorted(m.rows, reverse=True))
    if t in ("copy", "pickle", "ctor"):
        return M("pd", m.cols, m.active, m.rows)
    if t == "concat":
        return M("pd", m.cols, m.active, m.rows + m.rows)
    if t == "concat_empty":
        return M("pd", m.cols, m.active, [])
    if t == "astype_same":
        return M("pd", m.cols, m.active, m.rows)
    if t == "head":
        return M("pd", m.cols, m.active, m.rows[:op[1]])
    if t == "cx":
        return M("pd", m.cols, m.active, sel_rows(m, op[1]))
    if t == "cols":
        return M("pd", list(op[1]), m.active, m.rows)
    if t == "set_geometry":
        return M("pd", m.cols, op[1], m.rows)
    if t == "to_dask":
        # dask.dataframe.from_pandas sorts by index (labels are 100 + row id; the sort is stable)
        return M("dd", m.cols, m.active, sorted(m.rows), op[1])
    if t == "d_filter":
        return M("dd", m.cols, m.active, [r for r in m.rows if r * 10 >= 20], m.nparts, m.ordered)
    if t == "d_cx":
        return M("dd", m.cols, m.active, sel_rows(m, op[1]), -1, m.ordered)
    if t == "d_cols":
        return M("dd", list(op[1]), m.active, m.rows, m.nparts, m.ordered)
    if t == "d_set_geometry":
        return M("dd", m.cols, op[1], m.rows, m.nparts, m.ordered)
    if t == "d_pack":
        return M("dd", m.cols, m.active, m.rows, op[1], False)
    if t == "d_parquet":
        act = op[1] if op[1] is not None else m.geoms()[0]
        return M("dd", m.cols, act, m.rows, -2, m.ordered)
    if t == "compute":
        return M("pd", m.cols, m.active, m.rows, 0, m.ordered)
    if t == "d_persist":
        return M("dd", m.cols, m.active, m.rows, m.nparts, m.ordered, tag="persisted")
    if t == "d_concat":
        return M("dd", m.cols, m.active, m.rows + m.rows, -4, m.ordered, tag=m.tag)
    if t == "d_parquet_bounds":
        # whole partitions are kept: the rows are a superset of those whose ACTIVE geometry meets the box
        mm = M("dd", m.cols, op[1], m.rows, -3, m.ordered)
        return mm
    raise ValueError(op)


def apply_real(obj, m, op, scratch):
    import dask.dataframe as dd
    import pandas as pd
    t = op[0]
    if t == "iloc_slice":
        return obj.iloc[op[1]:op[2]]
    if t == "iloc_list":
        return obj.iloc[list(op[1])]
    if t == "filter":
        return obj[obj["val"] >= op[1]]
    if t == "loc_mask":
        return obj.loc[obj["val"] >= 20]
    if t == "sort":
        return obj.sort_values("val", ascending=False)
    if t == "copy":
        return obj.copy()
    if t == "pickle":
        return pickle.loads(pickle.dumps(obj))
    if t == "ctor":
        from spatialpandas import GeoDataFrame
        return GeoDataFrame(obj)
    if t == "concat":
        return pd.concat([obj, obj])
    if t == "concat_empty":
        return pd.concat([obj.iloc[:0], obj.iloc[:0]])          # every query came back empty
    if t == "astype_same":
        # the column-wise astype pandas / Dask use for string conversion: non-geometry columns only
        return obj.astype({c: obj[c].dtype for c in obj.columns if c in ("val", "txt")}) if any(c in ("val", "txt") for c in obj.columns) else obj.copy()
    if t == "head":
        return obj.head(op[1])
    if t == "cx":
        b = BOXES[op[1]]
        return obj.cx[b[0]:b[2], b[1]:b[3]]
    if t == "cols":
        return obj[[rn(c) for c in op[1]]]
    if t == "cols_nogeom":
        return obj[["val"]]
    if t == "nogeom":
        # element-wise results that keep the column labels but hold no geometry any more
        return {"isna": lambda: obj.isna(), "notna": lambda: obj.notna(), "astype_object": lambda: obj.astype(object),
                "isin": lambda: obj.isin([0, 10])}[op[1]]()
    if t == "set_geometry":
        return obj.set_geometry(rn(op[1]))
    if t == "to_dask":
        return dd.from_pandas(obj, npartitions=op[1])
    if t == "d_filter":
        return obj[obj["val"] >= op[1]]
    if t == "d_cx":
        b = BOXES[op[1]]
        return obj.cx[b[0]:b[2], b[1]:b[3]]
    if t == "d_cols":
        return obj[[rn(c) for c in op[1]]]
    if t == "d_set_geometry":
        return obj.set_geometry(rn(op[1]))
    if t == "d_persist":
        return obj.persist(scheduler="synchronous")
    if t == "d_concat":
        return dd.concat([obj, obj])
    if t == "d_parquet_bounds":
        from spatialpandas.io import read_parquet_dask
        path = os.path.join(scratch, f"c20-{os.getpid()}-{zlib.crc32(repr((m.key(), op)).encode())}.parq")
        obj.to_parquet(path, overwrite=True)
        _read_before(path, op[1], m)
        return read_parquet_dask(path, geometry=rn(op[1]), bounds=BOXES[op[2]])
    if t == "d_pack":
        return obj.pack_partitions(npartitions=op[1], p=6)
    if t == "d_parquet":
        from spatialpandas.io import read_parquet_dask
        path = os.path.join(scratch, f"c20-{os.getpid()}-{zlib.crc32(repr((m.key(), op)).encode())}.parq")
        obj.to_parquet(path, overwrite=True)
        _read_before(path, op[1], m)
        return read_parquet_dask(path, geometry=rn(op[1]) if op[1] else None)
    if t == "compute":
        return obj.compute(scheduler="synchronous")
    raise ValueError(op)


def _read_before(path, want, m):
    """the same files were read before in this process with ANOTHER active geometry, and that collection is still
    referenced: the read that follows must not be influenced by it"""
    from spatialpandas.io import read_parquet_dask
    g = m.geoms()
    act = want if want is not None else g[0]
    others = [x for x in g if x != act]
    if not others:
        return
    o = others[0]
    KEEP.append(read_parquet_dask(path, geometry=None if o == g[0] else rn(o)))
    del KEEP[:-6]


def row_ids(df):
    return [int(v) // 10 for v in df["val"].tolist()] if "val" in df.columns else None


def probe_rows_by_column(df, col, box):
    """rows of df selected by column `col` for the box, via the column's own array"""
    mask = np.asarray(df[col].array.intersects_bounds(BOXES[box]))
    return mask


def check_pandas_state(col, obj, m, hist, case):
    from spatialpandas import GeoDataFrame, GeoSeries, sjoin
    from spatialpandas.geometry import PointArray
    op = hist[-1][0] if hist else "base"
    col.count("evaluations")
    if type(obj) is not GeoDataFrame:
        col.violation("pd.type", case, f"after {hist[-3:]}: result type {type(obj).__name__}, expected GeoDataFrame", op=op)
        return
    try:
        name = obj.geometry.name
    except Exception as ex:
        col.violation("pd.geometry_lost", case, f"after {hist[-3:]}: .geometry raised {type(ex).__name__}: {str(ex)[:120]}", op=op)
        return
    if mn(name) != m.active:
        col.violation("pd.active_changed", case, f"after {hist[-3:]}: active geometry {name!r}, expected {rn(m.active)!r}", op=op)
        return
    if [mn(c) for c in obj.columns] != m.cols:
        col.violation("pd.columns", case, f"columns {list(obj.columns)} expected {m.cols}", op=op)
    ids = row_ids(obj)
    if ids is not None:
        ok = ids == m.rows if m.ordered else sorted(ids) == sorted(m.rows)
        if not ok:
            col.violation("pd.rows", case, f"after {hist[-3:]}: rows {ids} expected {m.rows}", op=op)
            return
    if len(m.geoms()) >= 2:
        col.count("nontrivial")
    # behavioural probes
    for box in ("A", "B"):
        col.count("evaluations")
        try:
            b = BOXES[box]
            res = obj.cx[b[0]:b[2], b[1]:b[3]]
            got_mask_rows = list(res.index)
            want_rows = list(obj.index[probe_rows_by_column(obj, rn(m.active), box)])
            if got_mask_rows != want_rows:
                col.violation("pd.cx_wrong_column", case, f"cx[{box}] selected labels {got_mask_rows}, the active column {m.active} selects {want_rows}", op=op)
            if ids is not None and [int(v) // 10 for v in res["val"].tolist()] != [r for r in ids if r in SEL[m.active][box]]:
                col.violation("pd.cx_rows", case, f"cx[{box}] rows {[int(v) // 10 for v in res['val'].tolist()]} expected {[r for r in ids if r in SEL[m.active][box]]}", op=op)
        except Exception as ex:
            col.violation("pd.cx.raises", case, f"{type(ex).__name__}: {str(ex)[:150]}", op=op)
    try:
        c = obj.copy()
        c.build_sindex(page_size=2)
        built = [g for g in m.geoms() if c[rn(g)].array._sindex is not None]
        col.count("evaluations")
        if built != [m.active]:
            col.violation("pd.build_sindex_column", case, f"build_sindex built an index on {built}, expected [{m.active}]", op=op)
    except Exception as ex:
        col.violation("pd.build_sindex.raises", case, f"{type(ex).__name__}: {str(ex)[:150]}", op=op)
    # set_geometry without inplace=True gives an independent frame, also when the column is already the active one
    others = [g for g in m.geoms() if g != m.active]
    if others:
        try:
            col.count("evaluations", 2)
            src = obj.copy()
            held = src.set_geometry(rn(m.active))
            held.set_geometry(rn(others[0]), inplace=True)
            if mn(src.geometry.name) != m.active or mn(held.geometry.name) != others[0]:
                col.violation("pd.set_geometry_aliases", case, f"r = f.set_geometry({m.active!r}) (already active); r.set_geometry({others[0]!r}, inplace=True): "
                              f"f is now {src.geometry.name!r}, r {held.geometry.name!r}", op=op)
            src = obj.copy()
            held = src.set_geometry(rn(m.active))
            src.set_geometry(rn(others[0]), inplace=True)
            if mn(held.geometry.name) != m.active:
                col.violation("pd.set_geometry_aliases", case, f"r = f.set_geometry({m.active!r}); f.set_geometry({others[0]!r}, inplace=True): r is now "
                              f"{held.geometry.name!r}", op=op)
        except Exception as ex:
            col.violation("pd.set_geometry_probe.raises", case, f"{type(ex).__name__}: {str(ex)[:150]}", op=op)
    # sjoin with this frame on the right: matches are decided by the active column
    if ids is not None and len(obj) > 0:
        try:
            left = GeoDataFrame({"q": [0, 1], "geometry": PointArray([list(p) for p in PROBES])})
            j = sjoin(left, obj, how="inner")
            col.count("evaluations")
            got = sorted((int(q), int(v) // 10) for q, v in zip(j["q"].tolist(), j["val"].tolist()))
            want = sorted((q, r) for q in (0, 1) for r in ids if r in PROBE_MATCH[m.active][q])
            if got != want:
                col.violation("pd.sjoin_column", case, f"sjoin(points, frame) matched {got}, the active column {m.active} gives {want}", op=op)
        except Exception as ex:
            col.violation("pd.sjoin.raises", case, f"{type(ex).__name__}: {str(ex)[:150]}", op=op)
    col.outcome(f"pd:{m.active}")


def check_dask_state(col, obj, m, hist, case):
    import pandas as pd
    from spatialpandas import GeoDataFrame
    from spatialpandas.dask import DaskGeoDataFrame
    op = hist[-1][0] if hist else "base"
    col.count("evaluations")
    if not isinstance(obj, DaskGeoDataFrame):
        col.violation("dd.type", case, f"after {hist[-3:]}: result type {type(obj).__name__}, expected DaskGeoDataFrame", op=op)
        return
    try:
        name = obj.geometry.name
    except Exception as ex:
        col.violation("dd.geometry_lost", case, f"after {hist[-3:]}: .geometry raised {type(ex).__name__}: {str(ex)[:120]}", op=op)
        return
    if mn(name) != m.active:
        col.violation("dd.active_changed", case, f"after {hist[-3:]}: active geometry {name!r}, expected {rn(m.active)!r}", op=op)
        return
    col.count("nontrivial")
    # every partition's own active geometry
    try:
        per = obj.map_partitions(lambda df: pd.DataFrame({"g": pd.Series([getattr(df, "_geometry", None)], dtype=object),
                                                          "t": [type(df).__name__]}),
                                 meta=pd.DataFrame({"g": pd.Series([], dtype=object), "t": pd.Series([], dtype=object)})
                                 ).compute(scheduler="synchronous")
        col.count("evaluations")
        bad = [(g, t) for g, t in zip(per["g"], per["t"]) if mn(g) != m.active or t != "GeoDataFrame"]
        if bad:
            col.violation("dd.partition_active", case, f"after {hist[-3:]}: partitions report {list(zip(per['g'], per['t']))}, expected all ({m.active}, GeoDataFrame)", op=op)
    except Exception as ex:
        col.violation("dd.map_partitions.raises", case, f"{type(ex).__name__}: {str(ex)[:150]}", op=op)
    # compute
    try:
        comp = obj.compute(scheduler="synchronous")
    except Exception as ex:
        if any(h[0] == "d_pack" for h in hist):
            # Dask cannot split a frame with fewer distinct Hilbert distances than requested partitions;
            # it only notices when the graph is built. Exempt, as in C09.
            col.count("pack_raised_exempt")
            return
        col.violation("dd.compute.raises", case, f"{type(ex).__name__}: {str(ex)[:150]}", op=op)
        return
    col.count("evaluations")
    if type(comp) is not GeoDataFrame:
        col.violation("dd.compute_type", case, f"compute() returned {type(comp).__name__}", op=op)
        return
    try:
        cname = comp.geometry.name
    except Exception as ex:
        col.violation("dd.compute_geometry_lost", case, f"after {hist[-3:]}: compute().geometry raised {type(ex).__name__}: {str(ex)[:100]} "
                      f"(npartitions={obj.npartitions})", op=op)
        cname = None
    if cname is not None and mn(cname) != m.active:
        col.violation("dd.compute_active_changed", case, f"compute() active {cname!r} expected {rn(m.active)!r}", op=op)
    ids = row_ids(comp)
    if ids is not None and m.nparts == -3:
        # bounds-pruned read: whole partitions; every row whose active geometry meets the box must survive
        box = hist[-1][2] if hist[-1][0] == "d_parquet_bounds" else None
        if box is not None:
            need = [r for r in m.rows if r in SEL[m.active][box]]
            if not set(need) <= set(ids) or not set(ids) <= set(m.rows):
                col.violation("dd.bounds_pruned_by_wrong_column", case,
                              f"read_parquet_dask(geometry={rn(m.active)}, bounds={box}) kept rows {ids}; rows {need} intersect the box", op=op)
        m.rows = list(ids)          # the model adopts the surviving whole partitions
    elif ids is not None:
        ok = ids == m.rows if m.ordered else sorted(ids) == sorted(m.rows)
        if not ok:
            col.violation("dd.rows", case, f"after {hist[-3:]}: rows {ids} expected {m.rows} (ordered={m.ordered})", op=op)
            return
    # cx uses the active column, in every partition
    for box in ("A", "B"):
        try:
            b = BOXES[box]
            res = obj.cx[b[0]:b[2], b[1]:b[3]].compute(scheduler="synchronous")
            col.count("evaluations")
            if ids is not None:
                got = [int(v) // 10 for v in res["val"].tolist()]
                want = [r for r in ids if r in SEL[m.active][box]]
                if sorted(got) != sorted(want):
                    col.violation("dd.cx_wrong_column", case, f"after {hist[-3:]}: dask cx[{box}] rows {got}, the active column {m.active} selects {want}", op=op)
        except Exception as ex:
            col.violation("dd.cx.raises", case, f"after {hist[-3:]}: {type(ex).__name__}: {str(ex)[:150]}", op=op,
                          after_pack=any(h[0] == "d_pack" for h in hist), err=type(ex).__name__)
    # partition bounds are those of the active column
    try:
        pb = obj.geometry.partition_bounds
        tb = tuple(float(v) for v in obj.geometry.total_bounds)
        col.count("evaluations")
        if len(comp):
            want = tuple(float(v) for v in comp[rn(m.active)].array.total_bounds)
            same = all((a == b) or (a != a and b != b) for a, b in zip(tb, want))
            if not same:
                col.violation("dd.partition_bounds_column", case, f"after {hist[-3:]}: total_bounds {tb} but the active column {m.active} has {want}", op=op)
    except Exception as ex:
        col.violation("dd.partition_bounds.raises", case, f"{type(ex).__name__}: {str(ex)[:150]}", op=op)
    col.outcome(f"dd:{m.active}:np={obj.npartitions}")


def explore(col, active, depth, shard, nshards, scratch, pts_name="pts", layout="std"):
    PTS_NAME[0] = pts_name
    LAYOUT[0] = layout

    def build_root():
        return base_frame(active), M("pd", base_cols(), active, [0, 1, 2, 3, 4])

    def case_for(hist):
        return {"active": active, "pts_name": pts_name, "layout": layout, "history": [list(o) for o in hist]}

    def key(obj, m):
        return m.key()

    def apply_op(obj, m, op, hist):
        if not hist and nshards > 1 and zlib.crc32(repr(op).encode()) % nshards != shard:
            return None
        cur, cm = build_root()
        for o in hist + [op]:
            if o[0] in ("cols_nogeom", "nogeom"):
                try:
                    r = apply_real(cur, cm, o, scratch)
                    col.count("evaluations")
                    import pandas as pd
                    from spatialpandas import GeoDataFrame
                    if type(r) is not pd.DataFrame or isinstance(r, GeoDataFrame):
                        col.violation("pd.nogeom_type", case_for(hist + [op]), f"frame without geometry columns has type {type(r).__name__}")
                except Exception as ex:
                    col.violation("pd.nogeom.raises", case_for(hist + [op]), f"{type(ex).__name__}: {str(ex)[:150]}")
                return None
            try:
                nxt = apply_real(cur, cm, o, scratch)
            except Exception as ex:
                if o[0] == "d_pack" or (isinstance(ex, AssertionError) and any(h[0] == "d_pack" for h in hist + [op])):
                    # dask cannot split a frame with fewer distinct Hilbert distances than requested partitions and only
                    # notices when the graph is built (exempt, as in C09)
                    col.count("pack_raised_exempt")
                    return None
                if o[0] == "d_cx":
                    # the same call site as the cx probe of check_dask_state (cx selects partitions when it is built)
                    col.violation("dd.cx.raises", case_for(hist + [op]), f"after {hist[-3:]}: {type(ex).__name__}: {str(ex)[:150]}", op=o[0],
                                  after_pack=any(h[0] == "d_pack" for h in hist), err=type(ex).__name__)
                    return None
                col.violation("op.raises", case_for(hist + [op]), f"{o} raised {type(ex).__name__}: {str(ex)[:200]}", op=o[0])
                return None
            cm = apply_model(cm, o)
            cur = nxt
        return cur, cm

    def on_transition(obj, m, hist):
        pass

    def on_new_state(obj, m, hist):
        case = case_for(hist)
        if m.kind == "pd":
            check_pandas_state(col, obj, m, hist, case)
        else:
            check_dask_state(col, obj, m, hist, case)
            if any(h[0] == "d_persist" for h in hist):
                # operations derive new collections; they must not change the one they were applied to
                try:
                    for o in ops_for(obj, m, 99):
                        if o[0] in ("d_set_geometry", "d_cols", "d_cx", "d_filter"):
                            apply_real(obj, m, o, scratch).compute(scheduler="synchronous")
                    col.count("noninterference_probes")
                    check_dask_state(col, obj, m, hist + [("after_deriving_siblings",)], dict(case, after_siblings=True))
                except Exception as ex:
                    col.violation("dd.noninterference.raises", case, f"{type(ex).__name__}: {str(ex)[:150]}")
            if hist and hist[-1][0] == "d_pack":
                # packing order follows the active geometry
                try:
                    comp = obj.compute(scheduler="synchronous")
                    tb = comp[rn(m.active)].array.total_bounds
                    want = np.asarray(comp[rn(m.active)].array.hilbert_distance(total_bounds=tuple(tb), p=6))
                    col.count("evaluations")
                    if list(comp.index) != list(want) or list(comp.index) != sorted(comp.index):
                        col.violation("dd.pack_column", case, f"packed index {list(comp.index)} but Hilbert distances of {m.active} are {want.tolist()}")
                except AssertionError:
                    col.count("pack_raised_exempt")
                except Exception as ex:
                    col.violation("dd.pack_probe.raises", case, f"{type(ex).__name__}: {str(ex)[:150]}")

    r, rm = build_root()
    stats = bfs.bfs([(r, rm)], ops_for, apply_op, key, on_transition, on_new_state, depth)
    col.count("states", stats.states)
    col.count("transitions", stats.transitions)
    col.sample({"active": active, "history": [["to_dask", 2], ["d_filter", 20], ["compute"]]})


def label_probes(col):
    """pandas frames whose geometry columns carry unusual labels (0, '', False-like): construction default, geometry=,
    set_geometry, copy construction, and the derived operations, for every position of the falsy label"""
    import pandas as pd
    from spatialpandas import GeoDataFrame
    from spatialpandas.geometry import LineArray, PointArray, PolygonArray
    arrays = {"P": lambda: PointArray([list(p) for p in PTS]),
              "L": lambda: LineArray([[c for p in l for c in p] for l in LINES]),
              "G": lambda: PolygonArray([[r] for r in POLYS])}
    sel = {"P": SEL["pts"], "L": SEL["lines"], "G": SEL["polys"]}
    for labels in ((0, 1, 2), (1, 0, 2), (2, 1, 0), ("", "a", "b"), ("a", "", "b"), ("a", "b", ""), (1, "v", 0), (0.0, 1.5, 2.5)):
        kinds = dict(zip(labels, "PLG"))
        def mk(**kw):
            d = {lab: arrays[k]() for lab, k in kinds.items()}
            df = pd.DataFrame(d)
            df.insert(0, "val" if isinstance(labels[0], str) else 99, np.arange(5) * 10)
            return GeoDataFrame(df, **kw)
        vlab = "val" if isinstance(labels[0], str) else 99

        def probe(df, want, what):
            col.count("evaluations")
            case = {"labels": [repr(x) for x in labels], "what": what, "want": repr(want)}
            try:
                got = df.geometry.name
                if got != want:
                    col.violation("label.active", case, f"{what}: active geometry {got!r}, expected {want!r} (labels {labels})")
                    return
                b = BOXES["A"]
                rows = [int(v) // 10 for v in df.cx[b[0]:b[2], b[1]:b[3]][vlab].tolist()]
                exp = [r for r in [int(v) // 10 for v in df[vlab].tolist()] if r in sel[kinds[want]]["A"]]
                if rows != exp:
                    col.violation("label.cx", case, f"{what}: cx rows {rows}, the active column {want!r} selects {exp}")
            except Exception as ex:
                col.violation("label.raises", case, f"{what}: {type(ex).__name__}: {str(ex)[:150]}")
        try:
            probe(mk(), labels[0], "default = first geometry column")
        except Exception as ex:
            col.violation("label.raises", {"labels": [repr(x) for x in labels], "what": "construct"}, f"{type(ex).__name__}: {str(ex)[:150]}")
            continue
        for lab in labels:
            probe(mk(geometry=lab), lab, f"GeoDataFrame(geometry={lab!r})")
            for start in labels:
                if start == lab:
                    continue
                base = mk(geometry=start)
                d = base.set_geometry(lab)
                probe(d, lab, f"set_geometry({lab!r}) from {start!r}")
                probe(base, start, f"source of set_geometry({lab!r})")
                probe(GeoDataFrame(d), lab, f"GeoDataFrame(frame with active {lab!r})")
                probe(d.copy(), lab, "copy")
                probe(pickle.loads(pickle.dumps(d)), lab, "pickle")
                probe(d.iloc[1:], lab, "iloc")
                probe(d[d[vlab] >= 0], lab, "filter")
                probe(pd.concat([d, d]), lab, "concat")
                probe(d[[lab, vlab]], lab, "column subset")
                base.set_geometry(lab, inplace=True)
                probe(base, lab, "set_geometry(inplace=True)")
                probe(GeoDataFrame(base), lab, "GeoDataFrame(frame set in place)")


def run(ctx):
    scratch = ctx.scratch()
    depth = 3
    THOROUGH[0] = ctx.thorough
    nshards = 16 if ctx.thorough else 8
    if ctx.thorough:
        depth = 4
    units = [(a, s, pn, "std") for a in ("lines", "polys") for s in range(nshards) for pn in ("pts", "geometry", "falsy")]
    units += [(a, s, "pts", "geomfirst") for a in ("lines", "polys") for s in range(nshards)]
    # verify the hand-written selection tables against the library once (harness self-check)
    PTS_NAME[0] = "pts"
    LAYOUT[0] = "std"
    df = base_frame("lines")
    for c in GEOM_COLS:
        for b in BOXES:
            got = set(np.nonzero(np.asarray(df[c].array.intersects_bounds(BOXES[b])))[0].tolist())
            if got != SEL[c][b]:
                raise core.HarnessError(f"selection table wrong for {c} {b}: {got}")

    def work(col, i):
        if i == len(units):
            label_probes(col)
            return
        a, s, pn, lay = units[i]
        explore(col, a, depth, s, nshards, scratch, pn, lay)

    core.pmap(ctx, work, len(units) + 1)
    c = ctx.col.counters
    ctx.coverage_extra.update({
        "states": int(c.get("states", 0)), "transitions": int(c.get("transitions", 0)),
        "traces_validated_against_impl": int(c.get("transitions", 0)), "depth_completed": depth,
        "explanation": "every transition replays the history on a fresh real frame; key = (pandas|dask, columns, active, rows, partitions)",
    })
    ctx.rule = ("BFS to the stated depth over pandas ops {iloc, filter, sort, copy, pickle, concat, head, loc, cx, column "
                "subsets in several orders, set_geometry, from_pandas(k)} and Dask ops {filter, cx, column subset, "
                "set_geometry, pack_partitions, to_parquet+read_parquet_dask(geometry=g|None), compute}; the first-level "
                "operations are sharded over workers. Non-trivial = states with >= 2 geometry columns.")
    ctx.assumptions = ["a column subset that drops the active column but keeps another geometry column is not generated "
                       "(the statement does not define the result)", "pack_partitions raising is exempt (C09)"]


def replay(ctx, case):
    col = core.Collector()
    scratch = ctx.scratch()
    active = case["active"]
    PTS_NAME[0] = case.get("pts_name", "pts")
    LAYOUT[0] = case.get("layout", "std")
    cur, cm = base_frame(active), M("pd", base_cols(), active, [0, 1, 2, 3, 4])
    hist = []
    for o in case["history"]:
        o = tuple(tuple(x) if isinstance(x, list) else x for x in o)
        if o[0] in ("cols_nogeom", "nogeom"):
            import pandas as pd
            r = apply_real(cur, cm, o, scratch)
            if type(r) is not pd.DataFrame:
                col.violation("pd.nogeom_type", case, f"type {type(r).__name__}")
            return col.violations
        try:
            cur = apply_real(cur, cm, o, scratch)
        except AssertionError:
            if any(h[0] == "d_pack" for h in hist + [o]):
                return col.violations       # dask cannot split the packed frame: exempt
            raise
        except Exception as ex:
            col.violation("dd.cx.raises" if o[0] == "d_cx" else "op.raises", case, f"{o} raised {type(ex).__name__}: {str(ex)[:200]}", op=o[0])
            return col.violations
        cm = apply_model(cm, o)
        hist.append(o)
    if cm.kind == "pd":
        check_pandas_state(col, cur, cm, hist, case)
    else:
        check_dask_state(col, cur, cm, hist, case)
    return col.violations
