"""C08 -- a geometry's Hilbert distance is the curve position of its bbox centre.

E1: kinds x elements with dyadic bbox centres (interior, on cell boundaries, on the upper edge,
outside, corners) x total_bounds variants (explicit containing / not containing / degenerate in
x, y, both / default) given as tuple, list, float ndarray, int ndarray x every p in 1..31 x
position of the element in the array (alone, first, last, reversed, sliced).
Oracle: exact cell by rational arithmetic + an independent (textbook xy2d) Hilbert reference.
"""
import copy
import itertools
from fractions import Fraction

import numpy as np

from .. import core
from .. import lattice as L

LEVEL = "exploration"


def xy2d(p, x, y):
    """textbook Hilbert curve index of cell (x, y) on a 2^p grid (starts (0,0), ends (2^p-1,0))"""
    n = 1 << p
    d = 0
    s = n >> 1
    while s > 0:
        rx = 1 if (x & s) else 0
        ry = 1 if (y & s) else 0
        d += s * s * ((3 * rx) ^ ry)
        if ry == 0:
            if rx == 1:
                x = n - 1 - x
                y = n - 1 - y
            x, y = y, x
        s >>= 1
    return d


def expected_cell(c, lo, hi, p):
    """clamp(floor((c - lo) * 2^p / width), 0, 2^p - 1) in exact rational arithmetic"""
    lo, hi, c = Fraction(lo), Fraction(hi), Fraction(c)
    if lo == hi:
        hi = hi + 1
    v = (c - lo) * (1 << p) / (hi - lo)
    k = v.numerator // v.denominator
    return max(0, min((1 << p) - 1, k))


def elem_for(kind, cx, cy, a, b):
    """an element of the given kind whose bbox is centred on (cx, cy) with half extents (a, b)"""
    if kind == "point":
        return (cx, cy)
    if kind == "multipoint":
        return ((cx - a, cy - b), (cx + a, cy + b)) if (a or b) else ((cx, cy),)
    if kind == "line":
        return ((cx - a, cy + b), (cx, cy), (cx + a, cy - b))
    if kind == "ring":
        return ((cx - a, cy - b), (cx + a, cy - b), (cx + a, cy + b), (cx - a, cy - b))
    if kind == "multiline":
        return (((cx - a, cy - b), (cx, cy)), ((cx, cy + b), (cx + a, cy)))
    if kind == "polygon":
        return (((cx - a, cy - b), (cx + a, cy - b), (cx + a, cy + b), (cx - a, cy + b), (cx - a, cy - b)),)
    if kind == "multipolygon":
        return ((((cx - a, cy - b), (cx, cy - b), (cx, cy), (cx - a, cy - b)),),
                (((cx, cy), (cx + a, cy), (cx + a, cy + b), (cx, cy)),))
    raise ValueError(kind)


# scenes: explicit total bounds with power-of-two extents (so the scaling is exact) and centres
SCENES = [
    # (lo_x, lo_y, hi_x, hi_y)
    (0, 0, 8, 8),
    (-4, 2, 4, 6),
    (1, 1, 2, 3),
    (0, 0, 1024, 0.5),
    (2, 3, 2, 7),        # zero width  -> widened to (2,3,3,7)
    (-1, 5, 7, 5),       # zero height -> widened
    (2, 3, 2, 3),        # both
    # small extents far from the origin (an approximate "is the extent degenerate" test would misfire)
    (2 ** 20, -(2 ** 20), 2 ** 20 + 8, -(2 ** 20) + 8),
    (2 ** 25, 2 ** 25 - 2, 2 ** 25 + 1, 2 ** 25),
    (-(2 ** 25), 7, -(2 ** 25) + 0.5, 7.25),
    # degenerate extents of large magnitude: widening by 1 must not be absorbed by a narrow number type
    (2 ** 24, 0, 2 ** 24, 8),
    (-8, 2 ** 26, 0, 2 ** 26),
]


def centres(lo, hi):
    """dyadic centres relative to an extent: interior, cell boundaries, both edges, outside"""
    w = Fraction(hi - lo) if hi != lo else Fraction(1)
    fr = [Fraction(0), Fraction(1, 8), Fraction(1, 2), Fraction(5, 8), Fraction(1, 1), Fraction(-1, 4),
          Fraction(3, 2), Fraction(1, 1) - Fraction(1, 1024), Fraction(1, 4) + Fraction(1, 2 ** 12)]
    return [Fraction(lo) + f * w for f in fr]


def as_arg(tb, how):
    if how == "tuple":
        return tuple(float(v) for v in tb)
    if how == "list":
        return [float(v) for v in tb]
    if how == "ndarray_float":
        return np.array([float(v) for v in tb], dtype=np.float64)
    if how == "ndarray_int":
        return np.array([int(v) for v in tb], dtype=np.int64)
    if how == "list_int":
        return [int(v) for v in tb]
    if how == "ndarray_float32":
        return np.array([float(v) for v in tb], dtype=np.float32)
    if how == "list_np_float32":
        return [np.float32(float(v)) for v in tb]
    if how == "tuple_np_float64":
        return tuple(np.float64(float(v)) for v in tb)
    if how == "ndarray_int32":
        return np.array([int(v) for v in tb], dtype=np.int32)
    if how == "series_labeled":
        import pandas as pd
        return pd.Series([float(v) for v in tb], index=["x0", "y0", "x1", "y1"])          # a row of a bounds table
    if how == "series_slice":
        import pandas as pd
        return pd.Series([-1.0, -2.0] + [float(v) for v in tb] + [9.0])[2:6]                 # labels 2..5
    if how == "series_permuted_labels":
        import pandas as pd
        return pd.Series([float(v) for v in tb], index=[2, 3, 0, 1])                        # positions, not labels, give the order
    raise ValueError(how)


def snapshot(arg):
    if hasattr(arg, "index") and hasattr(arg, "values"):
        return ("series", list(arg.index), arg.values.tolist())
    if isinstance(arg, np.ndarray):
        return ("nd", arg.dtype.str, arg.tolist())
    return (type(arg).__name__, [repr(v) for v in arg])


def check_scene(col, kind, tb, plist, seed):
    from spatialpandas import GeoSeries
    lox, loy, hix, hiy = tb
    cxs, cys = centres(lox, hix), centres(loy, hiy)
    # pair x and y centres so that every x-class meets every y-class at least once
    pairs = [(cxs[i], cys[(i + k) % len(cys)]) for k in (0, 2, 5) for i in range(len(cxs))]
    a, b = Fraction(1, 2), Fraction(1, 4)
    elems = [elem_for(kind, cx, cy, a, b) for cx, cy in pairs]
    felems = [to_float_elem(kind, e) for e in elems]
    case0 = {"kind": kind, "total_bounds": [float(v) for v in tb]}
    arr = L.make_array(kind, felems, "float64")
    arr_rev = L.make_array(kind, felems[::-1], "float64")
    arr_with_inert = L.make_array(kind, [None] + felems + [None], "float64")
    integral = all(float(v).is_integer() for v in tb)
    hows = ["tuple", "list", "ndarray_float", "tuple_np_float64", "series_labeled", "series_slice", "series_permuted_labels"] + \
        (["ndarray_int", "list_int", "ndarray_int32"] if integral else [])
    if all(float(np.float32(float(v))) == float(v) for v in tb):
        # the same extent spelled with narrower number types
        hows += ["ndarray_float32", "list_np_float32"]
    for p in plist:
        exp = []
        for cx, cy in pairs:
            ix = expected_cell(cx, lox, hix, p)
            iy = expected_cell(cy, loy, hiy, p)
            exp.append(xy2d(p, ix, iy))
        exp = np.array(exp, dtype=np.int64)
        for hi_, how in enumerate(hows):
            arg = as_arg(tb, how)
            snap = snapshot(arg)
            case = dict(case0, p=p, how=how)
            col.count("evaluations", len(elems))
            try:
                got = np.asarray(arr.hilbert_distance(total_bounds=arg, p=p))
            except Exception as ex:
                col.violation("raises", case, f"{type(ex).__name__}: {str(ex)[:300]}",
                              degenerate=(lox == hix or loy == hiy), how=how)
                continue
            if snapshot(arg) != snap:
                col.violation("argument_modified", case, f"total_bounds {snap} changed to {snapshot(arg)}", how=how)
            if got.shape != exp.shape or (got != exp).any():
                k = int(np.nonzero(got != exp)[0][0]) if got.shape == exp.shape else 0
                col.violation("wrong_distance", dict(case, index=k),
                              f"centre ({float(pairs[k][0])},{float(pairs[k][1])}) bounds {tb} p={p}: got {int(got[k])} expected {int(exp[k])}")
            if (got < 0).any() or (got >= (1 << (2 * p))).any():
                col.violation("out_of_range", case, "distance outside [0, 4^p)")
            col.count("nontrivial", len(set(exp.tolist())))
            if hi_ == 0:
                # the arrays an object hands out are the caller's: overwriting them changes no later answer
                try:
                    aw = L.make_array(kind, felems, "float64")
                    for name in ("bounds", "bounds_x", "bounds_y", "x", "y"):
                        v = getattr(aw, name, None)
                        if isinstance(v, np.ndarray) and v.flags.writeable and v.size:
                            v[...] = v + 12345.0
                    gw = np.asarray(aw.hilbert_distance(total_bounds=as_arg(tb, "tuple"), p=p))
                    col.count("evaluations", len(elems))
                    if (gw != got).any():
                        col.violation("aliased_bounds", case, "after writing into the arrays returned by bounds / x / y the distances changed")
                except Exception as ex:
                    col.violation("aliased_bounds.raises", case, f"{type(ex).__name__}: {str(ex)[:200]}")
                # independence from position / neighbours / slicing / inert rows
                arg2 = as_arg(tb, "tuple")
                try:
                    r_rev = np.asarray(arr_rev.hilbert_distance(total_bounds=arg2, p=p))[::-1]
                    r_sl = np.asarray(arr[3:].hilbert_distance(total_bounds=arg2, p=p))
                    r_in = np.asarray(arr_with_inert.hilbert_distance(total_bounds=arg2, p=p))
                    r_one = np.asarray([arr[k:k + 1].hilbert_distance(total_bounds=arg2, p=p)[0]
                                        for k in range(0, len(elems), 5)])
                    ser = GeoSeries(arr, index=[f"r{i}" for i in range(len(elems))])
                    r_ser = ser.hilbert_distance(total_bounds=arg2, p=p)
                    col.count("evaluations", 4 * len(elems))
                    if (r_rev != got).any() or (r_sl != got[3:]).any() or (r_in[1:-1] != got).any() \
                            or (r_one != got[::5]).any() or list(r_ser.index) != list(ser.index) \
                            or (r_ser.values != got).any():
                        col.violation("position_dependent", case, "value depends on position / neighbours / slicing")
                    if (r_in[[0, -1]] < 0).any() or (r_in[[0, -1]] >= (1 << (2 * p))).any():
                        col.violation("out_of_range_missing", case, f"missing element got {r_in[[0, -1]].tolist()}")
                except Exception as ex:
                    col.violation("raises_derived", case, f"{type(ex).__name__}: {str(ex)[:300]}",
                                  degenerate=(lox == hix or loy == hiy))
    col.sample(dict(case0, centres=[[float(x), float(y)] for x, y in pairs[:3]]))


def to_float_elem(kind, e):
    def f(p):
        return (float(p[0]), float(p[1]))
    if kind == "point":
        return f(e)
    if kind in ("multipoint", "line", "ring"):
        return tuple(f(p) for p in e)
    if kind in ("multiline", "polygon"):
        return tuple(tuple(f(p) for p in part) for part in e)
    return tuple(tuple(tuple(f(p) for p in r) for r in poly) for poly in e)


def check_default(col, kind, plist):
    """total_bounds=None: the array's own extent. Arrays are built so that the extent is a power
    of two (two corner elements), which makes the scaling exact; plus degenerate own extents."""
    configs = [
        ("pow2", [(0, 0), (8, 4), (1, 1), (4, 2), (8, 0), (7.5, 3.75), (2, 4)]),
        ("same_x", [(3, 0), (3, 4), (3, 1)]),              # zero width -> widened by 1
        ("same_y", [(0, 5), (8, 5), (2, 5)]),
        ("single", [(2, 2)]),
    ]
    nan = float("nan")
    configs += [("half_finite_x", [(0, 0), (8, 4), (4, 2), (2, 1), (16, None)]),      # last element: finite in x only
                ("half_finite_y", [(0, 0), (8, 4), (4, 2), (None, 8), (1, 1)])]
    for name, pts in configs:
        half = [i for i, q in enumerate(pts) if None in q]
        fpts = [(0 if q[0] is None else q[0], 0 if q[1] is None else q[1]) for q in pts]

        def nanify(e, q):
            if isinstance(e, tuple) and len(e) == 2 and not isinstance(e[0], tuple):
                return (nan if q[0] is None else e[0], nan if q[1] is None else e[1])
            return tuple(nanify(x, q) for x in e)
        if kind == "point":
            elems = [nanify(tuple(map(float, f)), q) for f, q in zip(fpts, pts)]
        elif half:
            elems = [nanify(to_float_elem(kind, elem_for(kind, Fraction(f[0]), Fraction(f[1]), 0, 0)), q) for f, q in zip(fpts, pts)]
        else:
            elems = [to_float_elem(kind, elem_for(kind, Fraction(q[0]), Fraction(q[1]), 0, 0)) for q in pts]
            if kind in ("ring", "polygon", "multipolygon", "line", "multiline"):
                # zero-extent shapes: bbox == centre
                pass
        arr = L.make_array(kind, elems, "float64")
        # the same elements in objects with a history: spatial index built / queried before
        arr_ix = L.make_array(kind, elems, "float64")
        arr_ix.build_sindex(page_size=2)
        arr_cx = L.make_array(kind, elems, "float64")
        arr_cx.cx[0.0:1.0, 0.0:1.0]
        _ = arr_cx.sindex
        # per axis, the extent is that of the finite coordinates
        xs = [Fraction(q[0]) for q in pts if q[0] is not None]
        ys = [Fraction(q[1]) for q in pts if q[1] is not None]
        tb = (min(xs), min(ys), max(xs), max(ys))
        full = [i for i in range(len(pts)) if i not in half]
        case0 = {"kind": kind, "default_bounds": name, "points": [[None if v is None else float(v) for v in q] for q in pts]}
        for p in plist:
            col.count("evaluations", len(pts))
            try:
                got = np.asarray(arr.hilbert_distance(p=p))
                got_ix = np.asarray(arr_ix.hilbert_distance(p=p))
                got_cx = np.asarray(arr_cx.hilbert_distance(p=p))
                got_tb = np.asarray(arr.hilbert_distance(total_bounds=arr.total_bounds, p=p))
            except Exception as ex:
                col.violation("default.raises", dict(case0, p=p), f"{type(ex).__name__}: {str(ex)[:300]}", config=name)
                continue
            exp = np.array([xy2d(p, expected_cell(Fraction(pts[i][0]), tb[0], tb[2], p), expected_cell(Fraction(pts[i][1]), tb[1], tb[3], p))
                            for i in full], dtype=np.int64)
            if (got[full] != exp).any():
                k = int(np.nonzero(got[full] != exp)[0][0])
                col.violation("default.wrong_distance", dict(case0, p=p, index=full[k]),
                              f"{name} point {pts[full[k]]} p={p}: got {int(got[full][k])} expected {int(exp[k])}")
            col.count("evaluations", 3 * len(pts))
            if (got_ix != got).any() or (got_cx != got).any() or (got_tb != got).any():
                col.violation("default.state_dependent", dict(case0, p=p),
                              f"{name} p={p}: fresh {got.tolist()}, after build_sindex {got_ix.tolist()}, after a cx query {got_cx.tolist()}, "
                              f"with total_bounds=arr.total_bounds {got_tb.tolist()}")


def check_wide(col, kind, plist):
    """bounding boxes (nearly) symmetric about the origin and enormously wider than total_bounds: min + max is exact (the centre
    is 0.5, 0.25 or 1), max - min is not representable"""
    if kind == "point":
        return
    W = 2 ** 52
    boxes = [((-W, -W // 2, W + 1, W // 2 + 1), (Fraction(1, 2), Fraction(1, 2))),
             ((-W + 2, -W, W, W + 1), (Fraction(1), Fraction(1, 2))),
             ((-W, -W, W, W), (Fraction(0), Fraction(0))),
             ((-W // 2, -W + 1, W // 2 + 0.5, W), (Fraction(1, 4), Fraction(1, 2)))]
    tb = (0, 0, 1, 1)
    elems, centres = [], []
    for (x0, y0, x1, y1), c in boxes:
        corners = ((float(x0), float(y0)), (float(x1), float(y1)))
        if kind in ("multipoint", "line"):
            e = corners
        elif kind == "ring":
            e = (corners[0], (corners[1][0], corners[0][1]), corners[1], corners[0])
        elif kind == "multiline":
            e = (corners,)
        elif kind == "polygon":
            e = ((corners[0], (corners[1][0], corners[0][1]), corners[1], (corners[0][0], corners[1][1]), corners[0]),)
        else:
            e = (((corners[0], (corners[1][0], corners[0][1]), corners[1], (corners[0][0], corners[1][1]), corners[0]),),)
        elems.append(e)
        centres.append(c)
    arr = L.make_array(kind, elems, "float64")
    case0 = {"kind": kind, "total_bounds": list(tb), "wide": True}
    for p in plist:
        col.count("evaluations", len(elems))
        exp = np.array([xy2d(p, expected_cell(cx, 0, 1, p), expected_cell(cy, 0, 1, p)) for cx, cy in centres], dtype=np.int64)
        try:
            got = np.asarray(arr.hilbert_distance(total_bounds=(0.0, 0.0, 1.0, 1.0), p=p))
        except Exception as ex:
            col.violation("wide.raises", dict(case0, p=p), f"{type(ex).__name__}: {str(ex)[:200]}")
            continue
        if (got != exp).any():
            k = int(np.nonzero(got != exp)[0][0])
            col.violation("wide.wrong_distance", dict(case0, p=p, index=k),
                          f"bbox {boxes[k][0]} (centre {float(centres[k][0])},{float(centres[k][1])}) in bounds {tb} p={p}: got {int(got[k])} expected {int(exp[k])}")


def run(ctx):
    from spatialpandas.spatialindex import hilbert_curve as hc
    # validate the independent reference against C07-style clauses on a small grid
    for p in (1, 2, 3, 4):
        side = 1 << p
        ds = sorted(xy2d(p, x, y) for x in range(side) for y in range(side))
        if ds != list(range(side * side)) or xy2d(p, 0, 0) != 0 or xy2d(p, side - 1, 0) != side * side - 1:
            raise core.HarnessError("reference Hilbert curve is not a bijection with the stated end points")
    plist = list(range(1, 32))
    kinds = ["point", "multipoint", "line", "ring", "multiline", "polygon", "multipolygon"]
    units = [(k, s) for k in kinds for s in range(len(SCENES))] + [(k, "default") for k in kinds]
    for k in kinds:
        a = L.make_array(k, [to_float_elem(k, elem_for(k, Fraction(1), Fraction(1), Fraction(1, 2), Fraction(1, 4)))], "float64")
        try:
            a.hilbert_distance(total_bounds=(0.0, 0.0, 8.0, 8.0), p=3)
        except Exception:
            pass

    def work(col, i):
        kind, s = units[i]
        pl = plist if (ctx.thorough or kind in ("point", "polygon")) else [1, 2, 3, 5, 10, 15, 16, 20, 30, 31]
        if s == "default":
            check_default(col, kind, pl)
            check_wide(col, kind, pl)
        else:
            check_scene(col, kind, SCENES[s], pl, ctx.seed)

    core.pmap(ctx, work, len(units))
    ctx.rule = ("7 kinds x 7 explicit total_bounds scenes (power-of-two extents incl. zero width/height/both, data "
                "outside) x 27 dyadic bbox centres (interior, on cell boundaries, lower/upper edge, outside) x argument "
                "types (tuple, list, float/int ndarray, int list) x p in 1..31 x positions (reversed, sliced, single, "
                "with missing neighbours, GeoSeries); default bounds on arrays with power-of-two or degenerate own "
                "extent. distinct_nontrivial counts distinct expected distances per (scene, p, argument type).")
    ctx.assumptions = ["exact equality only where the extent is a power of two and centres are dyadic (all scenes here)",
                       "reference curve = textbook xy2d, itself checked for bijection and end points"]


def replay_wide(ctx, case):
    col = core.Collector()
    check_wide(col, case["kind"], [case["p"]])
    return col.violations


def replay(ctx, case):
    if case.get("wide"):
        return replay_wide(ctx, case)
    col = core.Collector()
    if "default_bounds" in case:
        check_default(col, case["kind"], [case["p"]])
    else:
        tb = tuple(Fraction(v) for v in case["total_bounds"])
        check_scene(col, case["kind"], tb, [case["p"]], 0)
    return col.violations
