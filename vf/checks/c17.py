"""C17 -- missing and empty geometries are inert.

E1 (metamorphic, no oracle needed): per kind a base of 3 valid elements with non-exact float
coordinates and EVERY placement of 1..3 inert rows (missing, empty, for points also (NaN,NaN))
in a final length <= 6 -- first, last, a whole R-tree page, a whole Dask partition, all rows.
For every operation the statement names: result restricted to the valid rows == result on the
frame with the inert rows removed; inert rows never satisfy a predicate, are never selected or
matched, have NaN bounds (and NaN measures when missing).
"""
import itertools
import math
import os
import shutil

import numpy as np

from .. import core
from .. import lattice as L
from .. import oracle as O

LEVEL = "exploration"
RETRY = dict(wait_exponential_multiplier=1, wait_exponential_max=1, stop_max_attempt_number=3)     # the keys of the library's own default, 1 ms waits
PI, E_ = math.pi, math.e


def ring(cx, cy, r):
    return ((cx - r, cy - r), (cx + r, cy - r * 0.9), (cx + r * 1.1, cy + r), (cx - r, cy + r), (cx - r, cy - r))


BASE = {
    "point": [(0.1, 0.7), (PI, E_), (2.3, 0.2)],
    "multipoint": [((0.1, 0.7), (1.3, 1.1)), ((PI, E_),), ((2.3, 0.2), (2.9, 3.3), (0.4, 3.1))],
    "line": [((0.1, 0.7), (1.3, 1.1), (1.0, 2.2)), ((PI, E_), (2.2, 2.9)), ((2.3, 0.2), (3.4, 0.3))],
    "ring": [ring(0.6, 0.6, 0.5), ring(PI, E_, 0.3), ring(2.5, 0.6, 0.45)],
    "multiline": [(((0.1, 0.7), (1.3, 1.1)), ((1.0, 2.2), (0.2, 2.0))), (((PI, E_), (2.2, 2.9)),), (((2.3, 0.2), (3.4, 0.3)), ((3.3, 1.3), (2.1, 1.2)))],
    "polygon": [(ring(0.6, 0.6, 0.5),), (ring(PI, E_, 0.45), ring(PI, E_, 0.1)[::-1]), (ring(2.5, 0.6, 0.45),)],
    "multipolygon": [((ring(0.6, 0.6, 0.5),), (ring(0.6, 2.6, 0.3),)), ((ring(PI, E_, 0.45), ring(PI, E_, 0.1)[::-1]),), ((ring(2.5, 0.6, 0.45),),)],
}
BOXES = [(0.0, 0.0, 1.2, 1.2), (2.0, 2.0, 3.6, 3.3), (-1.0, -1.0, 5.0, 5.0), (1.9, 0.0, 3.0, 0.9), (3.05, 2.6, 3.2, 2.8), (10.0, 10.0, 11.0, 11.0),
          (0.0, 0.0, 0.0, 0.0)]
SHAPES = [("polygon", (ring(0.3, 0.6, 0.5),)), ("line", ((PI, E_), (0.1, 0.7))), ("multipoint", ((2.3, 0.2), (0.0, 0.0))),
          ("polygon", (((-1.0, -1.0), (1.0, -1.0), (1.0, 1.0), (-1.0, 1.0), (-1.0, -1.0)),))]
INERT_TYPES = {"point": ("M", "N"), "default": ("M", "E")}
INF = float("inf")
# an element whose coordinates are all infinite has no finite coordinate either
INF_ELEM = {
    "point": (INF, -INF),
    "multipoint": ((INF, INF), (-INF, INF)),
    "line": ((INF, INF), (-INF, INF), (INF, -INF)),
    "ring": ((INF, INF), (-INF, INF), (INF, -INF), (INF, INF)),
    "multiline": (((INF, INF), (-INF, INF)), ((INF, -INF), (INF, INF))),
    "polygon": (((INF, INF), (-INF, INF), (INF, -INF), (INF, INF)),),
    "multipolygon": ((((INF, INF), (-INF, INF), (INF, -INF), (INF, INF)),),),
}


# an element whose only ring / line / polygon has no vertex at all has no finite coordinate either ([[]], [[[]]])
NEST_ELEM = {"multiline": ((),), "polygon": ((),), "multipolygon": (((),),)}


def inert_menu(kind):
    types = INERT_TYPES.get(kind, INERT_TYPES["default"])
    return types + ("I",) + (("X",) if kind in NEST_ELEM else ())


def inert_elem(t, kind=None):
    if t == "I":
        return INF_ELEM[kind]
    if t == "X":
        return NEST_ELEM[kind]
    return None if t == "M" else ()        # () = empty list; for points () becomes (NaN, NaN)


def placements():
    """(final length, sorted tuple of inert positions)"""
    out = []
    for k in (1, 2, 3):
        Ln = 3 + k
        for pos in itertools.combinations(range(Ln), k):
            out.append((Ln, pos))
    return out


def build(kind, Ln, pos, filling):
    """returns (elements, row ids): valid rows carry ids 0..2, inert rows 100+"""
    types = INERT_TYPES.get(kind, INERT_TYPES["default"])
    elems, ids = [], []
    vi = 0
    for i in range(Ln):
        if i in pos:
            menu = inert_menu(kind)
            t = types[0] if filling == 0 else menu[(pos.index(i) + 1 + Ln) % len(menu)]
            elems.append(inert_elem(t, kind))
            ids.append(100 + i)
        else:
            elems.append(BASE[kind][vi])
            ids.append(vi)
            vi += 1
    return elems, ids


def eqf(a, b):
    a = np.asarray(a, dtype=float)
    b = np.asarray(b, dtype=float)
    return a.shape == b.shape and bool(np.all((a == b) | (np.isnan(a) & np.isnan(b))))


def check_frame(col, scratch, kind, elems, ids, label, dask_too=True, deep=True, pre=None):
    import dask.dataframe as dd
    import pandas as pd
    from spatialpandas import GeoDataFrame, GeoSeries, sjoin
    from spatialpandas.io import read_parquet_dask
    S = "synchronous"
    valid_pos = [i for i, r in enumerate(ids) if r < 100]
    inert_pos = [i for i, r in enumerate(ids) if r >= 100]
    missing_pos = [i for i in inert_pos if elems[i] is None]
    case = {"kind": kind, "ids": ids, "inert": ["M" if elems[i] is None else ("E" if elems[i] == () else ("X" if elems[i] == NEST_ELEM.get(kind) else "I")) for i in inert_pos], "label": label}
    if pre:
        # the array under test is the slice [len(pre):] of a longer array (non-zero buffer / bitmap offsets)
        arr = L.make_array(kind, list(pre) + list(elems), "float64")[len(pre):]
    else:
        arr = L.make_array(kind, elems, "float64")
    ref = L.make_array(kind, [elems[i] for i in valid_pos], "float64")
    col.count("evaluations")
    col.count("nontrivial")

    def viol(site, detail, **tags):
        col.violation(f"{site}", dict(case, site=site), f"{kind} ids={ids}: {detail}", kind=kind, **tags)

    # ---- bounds / total bounds / measures
    try:
        b = np.asarray(arr.bounds, dtype=float)
        if not eqf(b[valid_pos], np.asarray(ref.bounds, dtype=float)):
            viol("bounds.valid_rows", "bounds of valid rows changed by inert rows")
        if len(inert_pos) and not np.isnan(b[inert_pos]).all():
            viol("bounds.inert_not_nan", f"inert rows have bounds {b[inert_pos].tolist()}")
        if not eqf(arr.total_bounds, ref.total_bounds) or not eqf(arr.total_bounds_x, ref.total_bounds_x) or not eqf(arr.total_bounds_y, ref.total_bounds_y):
            viol("total_bounds", f"total_bounds {arr.total_bounds} vs without inert rows {ref.total_bounds}")
        for name in ("length", "area"):
            v = np.asarray(getattr(arr, name), dtype=float)
            if not eqf(v[valid_pos], np.asarray(getattr(ref, name), dtype=float)):
                viol(f"{name}.valid_rows", f"{name} of valid rows changed")
            if missing_pos and not np.isnan(v[missing_pos]).all():
                viol(f"{name}.missing_not_nan", f"{name} of missing rows {v[missing_pos].tolist()}")
    except Exception as ex:
        viol("measures.raises", f"{type(ex).__name__}: {str(ex)[:200]}")
    # ---- predicates
    for bx in BOXES:
        col.count("evaluations")
        try:
            r = np.asarray(arr.intersects_bounds(bx))
            if r[inert_pos].any():
                viol("intersects_bounds.inert_true", f"box {bx}: inert rows intersect: {r.tolist()}")
            if (r[valid_pos] != np.asarray(ref.intersects_bounds(bx))).any():
                viol("intersects_bounds.valid_rows", f"box {bx}: valid rows changed")
            r2 = np.asarray(arr.intersects_bounds(bx, np.arange(len(elems))[::-1].copy()))[::-1]
            if (r2 != r).any():
                viol("intersects_bounds.inds", f"box {bx}: inds form differs")
        except Exception as ex:
            viol("intersects_bounds.raises", f"box {bx}: {type(ex).__name__}: {str(ex)[:200]}")
    if kind == "point":
        for sk, se in SHAPES:
            col.count("evaluations")
            shp = L.make_scalar(sk, se, "float64")
            r = np.asarray(arr.intersects(shp))
            if r[inert_pos].any():
                viol("intersects.inert_true", f"shape {sk}: inert points intersect: {r.tolist()}")
            if (r[valid_pos] != np.asarray(ref.intersects(shp))).any():
                viol("intersects.valid_rows", f"shape {sk}: valid rows changed")
            # the same question for a list of positions that names inert rows too
            iv = np.array(list(range(len(ids)))[::-1] + inert_pos, dtype=np.int64)
            ri = np.asarray(arr.intersects(shp, iv))
            col.count("evaluations")
            if ri.shape != iv.shape or (ri != r[iv]).any():
                viol("intersects.inds", f"shape {sk}: intersects(shape, inds={iv.tolist()}) = {ri.tolist()} but intersects(shape)[inds] = {r[iv].tolist()}")
    # ---- hilbert distance (explicit and default bounds)
    try:
        hb = (-1.0, -1.0, 7.0, 7.0)
        for tb in (hb, None):
            h1 = np.asarray(arr.hilbert_distance(total_bounds=tb, p=9))
            h2 = np.asarray(ref.hilbert_distance(total_bounds=tb, p=9))
            col.count("evaluations")
            if (h1[valid_pos] != h2).any():
                viol("hilbert_distance", f"total_bounds={tb}: distances of valid rows changed {h1[valid_pos].tolist()} vs {h2.tolist()}")
    except Exception as ex:
        viol("hilbert_distance.raises", f"{type(ex).__name__}: {str(ex)[:200]}")
    # ---- spatial index queries and cx with / without index, every page size
    remap = {p: k for k, p in enumerate(valid_pos)}
    for ps in (1, 2, 3, 512):
        try:
            a1 = L.make_array(kind, elems, "float64")
            a2 = L.make_array(kind, [elems[i] for i in valid_pos], "float64")
            a1.build_sindex(page_size=ps, p=4)
            a2.build_sindex(page_size=ps, p=4)
            if not eqf(a1.sindex.total_bounds, a2.sindex.total_bounds):
                viol("sindex.total_bounds", f"page_size {ps}: {a1.sindex.total_bounds} vs {a2.sindex.total_bounds}")
            for bx in BOXES[:6]:
                col.count("evaluations", 3)
                r1 = sorted(int(v) for v in a1.sindex.intersects(bx))
                r2 = sorted(int(v) for v in a2.sindex.intersects(bx))
                c1, o1 = a1.sindex.covers_overlaps(bx)
                c2, o2 = a2.sindex.covers_overlaps(bx)
                if any(v in inert_pos for v in r1) or any(int(v) in inert_pos for v in c1) or any(int(v) in inert_pos for v in o1):
                    viol("sindex.inert_reported", f"page_size {ps} box {bx}: inert rows reported {r1} {list(c1)} {list(o1)}")
                elif [remap[v] for v in r1] != r2 or sorted(remap[int(v)] for v in c1) != sorted(int(v) for v in c2) \
                        or sorted(remap[int(v)] for v in o1) != sorted(int(v) for v in o2):
                    viol("sindex.valid_rows", f"page_size {ps} box {bx}: {r1} vs {r2}")
                for A, R, nm in ((a1, a2, "indexed"), (arr, ref, "plain")):
                    g1 = A.cx[bx[0]:bx[2], bx[1]:bx[3]].data.to_pylist()
                    g2 = R.cx[bx[0]:bx[2], bx[1]:bx[3]].data.to_pylist()
                    if g1 != g2:
                        viol(f"cx.{nm}", f"page_size {ps} box {bx}: cx selects {len(g1)} rows vs {len(g2)} without inert rows")
                # omitted ends: the data extent must not depend on inert rows
                g1 = a1.cx[:, bx[1]:bx[3]].data.to_pylist()
                g2 = a2.cx[:, bx[1]:bx[3]].data.to_pylist()
                if g1 != g2:
                    viol("cx.omitted_end", f"page_size {ps} box {bx}: cx[:, y0:y1] differs")
            # every end omitted: "everything" still means every row that HAS an extent
            for A, R, nm in ((a1, a2, "indexed"), (arr, ref, "plain")):
                col.count("evaluations")
                g1 = A.cx[:, :].data.to_pylist()
                g2 = R.cx[:, :].data.to_pylist()
                if g1 != g2:
                    viol(f"cx.all_open.{nm}", f"page_size {ps}: cx[:, :] selects {len(g1)} rows, {len(g2)} without the inert rows")
        except Exception as ex:
            viol("sindex_cx.raises", f"page_size {ps}: {type(ex).__name__}: {str(ex)[:200]}")
    # ---- sjoin
    try:
        pts_probe = GeoDataFrame({"geometry": L.make_array("point", [(0.6, 0.6), (PI, E_), (2.3, 0.2), (9.0, 9.0), (0.1, 0.7)], "float64"),
                                  "q": np.arange(5)})
        fr = GeoDataFrame({"geometry": arr, "val": ids})
        fr_ref = GeoDataFrame({"geometry": ref, "val": [ids[i] for i in valid_pos]})
        for how in ("inner", "left", "right"):
            col.count("evaluations")
            if kind == "point":
                right = GeoDataFrame({"geometry": L.make_array("polygon", [(ring(0.3, 0.6, 0.5),), (ring(PI, E_, 0.4),)], "float64"), "r": [0, 1]})
                j1, j2 = sjoin(fr, right, how=how), sjoin(fr_ref, right, how=how)
            else:
                j1, j2 = sjoin(pts_probe, fr, how=how), sjoin(pts_probe, fr_ref, how=how)

            def rows(j):
                cols_ = [c for c in j.columns if c != "geometry" and not str(c).startswith("index_")]
                out = []
                for rec in j[cols_].to_dict("records"):
                    out.append(tuple((k, None if (isinstance(v, float) and v != v) else (int(v) if isinstance(v, (int, float, np.integer, np.floating)) else v)) for k, v in sorted(rec.items())))
                return out
            r1 = rows(j1)
            matched_inert = [r for r in r1 if dict(r).get("val") is not None and dict(r)["val"] >= 100 and
                             any(v is not None for k, v in r if k in ("q", "r"))]
            if matched_inert:
                viol(f"sjoin.{how}.inert_matched", f"inert rows matched: {matched_inert[:3]}")
            r1v = sorted((r for r in r1 if not (dict(r).get("val") is not None and dict(r)["val"] >= 100)), key=repr)
            if r1v != sorted(rows(j2), key=repr):
                viol(f"sjoin.{how}.valid_rows", f"join result for valid rows changed: {r1v[:4]} vs {sorted(rows(j2), key=repr)[:4]}")
    except Exception as ex:
        viol("sjoin.raises", f"{type(ex).__name__}: {str(ex)[:200]}", inert_side=("left" if kind == "point" else "right"))
    # ---- Dask
    if not dask_too:
        return
    df = GeoDataFrame({"val": ids, "geometry": arr}, index=pd.Index(np.arange(len(ids)) + 10, name="idx"))
    df_ref = GeoDataFrame({"val": [ids[i] for i in valid_pos], "geometry": ref}, index=pd.Index(np.arange(len(valid_pos)) + 10, name="idx"))
    for k in range(1, min(len(ids), 3) + 1):
        try:
            ddf = dd.from_pandas(df, npartitions=k)
            col.count("evaluations", 2)
            if not eqf(ddf.geometry.total_bounds, ref.total_bounds if len(valid_pos) else (np.nan,) * 4):
                viol("dask.total_bounds", f"npartitions {k}: {ddf.geometry.total_bounds} vs {ref.total_bounds}")
            for bx in BOXES[:4]:
                got = ddf.cx[bx[0]:bx[2], bx[1]:bx[3]].compute(scheduler=S)["val"].tolist()
                want = df_ref.cx[bx[0]:bx[2], bx[1]:bx[3]]["val"].tolist()
                col.count("evaluations")
                if got != want:
                    viol("dask.cx", f"npartitions {k} box {bx}: dask cx selects {got}, without inert rows {want}")
            if k >= 2 and (len(ids) + k) % 2 == 0:
                # written and read back: the stored partition bounds of partitions made only of inert rows
                w = os.path.join(scratch, f"c17p-{os.getpid()}")
                shutil.rmtree(w, ignore_errors=True)
                ddf.to_parquet(w)
                rb = read_parquet_dask(w)
                col.count("evaluations", 1 + 4)
                if not eqf(rb.geometry.total_bounds, ref.total_bounds if len(valid_pos) else (np.nan,) * 4):
                    viol("dask.parquet.total_bounds", f"npartitions {k}: after a parquet round trip {rb.geometry.total_bounds} vs {ref.total_bounds}")
                for bx in BOXES[:4]:
                    got = rb.cx[bx[0]:bx[2], bx[1]:bx[3]].compute(scheduler=S)["val"].tolist()
                    want = df_ref.cx[bx[0]:bx[2], bx[1]:bx[3]]["val"].tolist()
                    if got != want:
                        viol("dask.parquet.cx", f"npartitions {k} box {bx}: after a parquet round trip cx selects {got}, without inert rows {want}")
                shutil.rmtree(w, ignore_errors=True)
        except Exception as ex:
            viol("dask.raises", f"npartitions {k}: {type(ex).__name__}: {str(ex)[:200]}")
    if not deep:
        return
    # ---- Hilbert packing: the valid rows get the same index, order and rows as without the inert rows
    for writer in ("pack", "pack_parquet"):
        try:
            col.count("evaluations")
            k = 2
            d1 = dd.from_pandas(df, npartitions=k)
            if not valid_pos:
                # nothing to compare with (an empty frame cannot be packed): the call on the all-inert frame
                # must still keep its rows
                try:
                    if writer == "pack":
                        p1 = d1.pack_partitions(npartitions=1, p=8).compute(scheduler=S)
                    else:
                        w = os.path.join(scratch, f"c17-{os.getpid()}")
                        shutil.rmtree(w, ignore_errors=True)
                        os.makedirs(w)
                        p1 = d1.pack_partitions_to_parquet(os.path.join(w, "a.parq"), npartitions=2, p=8, _retry_args=RETRY).compute(scheduler=S)
                        shutil.rmtree(w, ignore_errors=True)
                    if sorted(p1["val"].tolist()) != sorted(ids):
                        viol(f"{writer}.rows_lost", f"packed rows {sorted(p1['val'].tolist())} vs input {sorted(ids)}")
                except (AssertionError, IndexError):
                    col.count("pack_raised_exempt")
                continue
            d2 = dd.from_pandas(df_ref, npartitions=min(k, max(1, len(valid_pos))))
            if writer == "pack":
                try:
                    p1 = d1.pack_partitions(npartitions=2, p=8).compute(scheduler=S)
                    p2 = d2.pack_partitions(npartitions=2, p=8).compute(scheduler=S)
                except (AssertionError, IndexError):
                    col.count("pack_raised_exempt")
                    continue
            else:
                w = os.path.join(scratch, f"c17-{os.getpid()}")
                shutil.rmtree(w, ignore_errors=True)
                os.makedirs(w)
                p1 = d1.pack_partitions_to_parquet(os.path.join(w, "a.parq"), npartitions=3, p=8, _retry_args=RETRY).compute(scheduler=S)
                p2 = d2.pack_partitions_to_parquet(os.path.join(w, "b.parq"), npartitions=3, p=8, _retry_args=RETRY).compute(scheduler=S)
                shutil.rmtree(w, ignore_errors=True)
            if sorted(p1["val"].tolist()) != sorted(ids):
                viol(f"{writer}.rows_lost", f"packed rows {sorted(p1['val'].tolist())} vs input {sorted(ids)}")
            v1 = [(i, v) for i, v in zip(p1.index.tolist(), p1["val"].tolist()) if v < 100]
            v2 = list(zip(p2.index.tolist(), p2["val"].tolist()))
            if sorted(v1) != sorted(v2) or [i for i, _ in v1] != sorted(i for i, _ in v1):
                viol(f"{writer}.valid_rows", f"(distance, row) of valid rows {v1} vs without inert rows {v2}")
        except Exception as ex:
            viol(f"{writer}.raises", f"{type(ex).__name__}: {str(ex)[:200]}")


def plan(ctx):
    units = []
    pl = placements()
    for kind in O.KINDS:
        for filling in (0, 1):
            for c in range(0, len(pl), 6):
                units.append((kind, filling, pl[c:c + 6]))
        units.append((kind, "special", None))
    return units


def run(ctx):
    scratch = ctx.scratch()
    units = plan(ctx)
    for kind in O.KINDS:
        a = L.make_array(kind, BASE[kind] + [None], "float64")
        a.bounds, a.area, a.length
        a.intersects_bounds(BOXES[0])
        a.build_sindex(page_size=2)
        a.cx[0.0:1.0, 0.0:1.0]

    def work(col, i):
        kind, filling, pls = units[(i + ctx.seed) % len(units)]
        if filling == "special":
            types = INERT_TYPES.get(kind, INERT_TYPES["default"])
            # all rows inert; a single inert row; inert rows only at both ends of a longer array
            for t in inert_menu(kind):
                check_frame(col, scratch, kind, [inert_elem(t, kind)] * 3, [100, 101, 102], f"all_inert:{t}")
                check_frame(col, scratch, kind, [inert_elem(t, kind)], [100], f"single_inert:{t}", deep=False)
            el = [None, ()] + BASE[kind] + BASE[kind][::-1] + [(), None]
            ids = [100, 101, 0, 1, 2, 3, 4, 5, 106, 107]
            # (ids 3..5 are valid duplicates of the base elements)
            check_frame(col, scratch, kind, el, ids, "ends_of_longer")
            # 20 rows (the validity bitmap spans three bytes), inert rows around the byte boundaries, and its byte-aligned slices
            base3 = BASE[kind]
            el = [base3[i % 3] for i in range(20)]
            ids = list(range(20))
            for k, i in enumerate((1, 7, 8, 10, 15, 18)):
                el[i] = inert_elem(inert_menu(kind)[k % len(inert_menu(kind))], kind)
                ids[i] = 100 + i
            check_frame(col, scratch, kind, el, ids, "long20", deep=False)
            for off in (8, 16):
                check_frame(col, scratch, kind, el[off:], ids[off:], f"long20[{off}:]", deep=False, pre=el[:off], dask_too=False)
            return
        for (Ln, pos) in pls:
            elems, ids = build(kind, Ln, pos, filling)
            deep = ctx.thorough or (len(pos) + pos[0] + filling) % 2 == 0
            check_frame(col, scratch, kind, elems, ids, f"L{Ln}:pos{list(pos)}:f{filling}", deep=deep)
            col.sample({"kind": kind, "ids": ids, "inert_positions": list(pos)})

    core.pmap(ctx, work, len(units), timeout=7200)
    ctx.rule = ("7 kinds x every placement of 1..3 inert rows among 3 valid rows (34 placements) x 2 inert fillings (all missing; "
                "alternating missing/empty, for points missing/(NaN,NaN)) plus all-inert, single-inert and inert-at-both-ends "
                "arrays x every named operation (bounds, total_bounds, length, area, 7 boxes, shapes, Hilbert distance, R-tree "
                "queries and cx with page sizes 1,2,3,512 and without index, sjoin inner/left/right, Dask total_bounds / cx with "
                "1..3 partitions, pack_partitions, pack_partitions_to_parquet). Every frame is non-trivial (holds inert rows).")
    ctx.assumptions = ["metamorphic relation: results for valid rows with and without inert rows must be identical (no oracle)",
                       "valid duplicates in the 'ends_of_longer' array carry ids 3..5"]


def replay(ctx, case):
    col = core.Collector()
    kind, ids = case["kind"], case["ids"]
    types = {"M": None, "E": (), "I": INF_ELEM[kind], "X": NEST_ELEM.get(kind)}
    it = iter(case["inert"])
    elems = []
    seq = BASE[kind] + BASE[kind][::-1]
    for r in ids:
        elems.append(types[next(it)] if r >= 100 else seq[r])
    check_frame(col, ctx.scratch(), kind, elems, ids, case.get("label", "replay"))
    return col.violations
