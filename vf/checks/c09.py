"""C09 -- pack_partitions keeps every row and orders rows along the Hilbert curve.

E1: frames of n rows (duplicate geometries, missing geometry, two geometry columns with either
one active) x every input partitioning from_pandas(k), k in 1..n, plus already-sorted input and an
input partition emptied by a filter x npartitions in 1..n+2 x p in {1,2,3,10,15,20}.
Oracle (only when the call returns and computes; a raise is outside the claim and is counted):
row multiset, per-row index == Hilbert distance of its own active geometry w.r.t. the whole
frame's total bounds, global monotonicity, partition count, independence of input partitioning.
"""
import itertools
import os

import numpy as np

from .. import core
from .. import lattice as L

LEVEL = "exploration"
PLIST = (1, 2, 3, 10, 15, 20)


def sq(x0, y0, x1, y1):
    return ((x0, y0), (x1, y0), (x1, y1), (x0, y1), (x0, y0))


B24 = float(2 ** 24 + 1)

FRAMES = [
    # (points column, second column kind, second column elements); rows share geometries / are missing
    ([(0, 0), (7, 1), (7, 1), None, (3, 6), (1, 7)],
     "polygon", [(sq(5, 5, 7, 7),), (sq(0, 0, 1, 1),), None, (sq(0, 6, 1, 7),), (sq(0, 0, 1, 1),), (sq(6, 0, 7, 2),)]),
    ([(2, 2), (2, 5), None, (6, 6), (2, 2), (5, 1)],
     "line", [((0, 0), (1, 1)), ((7, 7), (6, 5)), ((0, 7), (2, 7)), ((0, 0), (1, 1)), None, ((7, 0), (7, 1))]),
    # all points on one horizontal line (degenerate extent in y), second column multipoint
    ([(0, 3), (5, 3), (2, 3), (7, 3), (2, 3), None],
     "multipoint", [((1, 1), (2, 2)), ((6, 0),), None, ((0, 7), (1, 6)), ((6, 0),), ((4, 4),)]),
    # a small extent far from the origin (its corners are not float32-representable), negative and fractional coordinates
    ([(B24, B24 + 2), (B24 + 0.5, B24 + 1.5), None, (B24 + 2, B24), (B24, B24 + 2), (B24 + 1.25, B24 + 0.75)],
     "line", [((-5.5, -5.5), (-4.4, -1.1)), None, ((0.1, 0.2), (0.3, 0.7)), ((-9.9, 3.3), (-9.9, 3.3)), ((2.2, 2.2), (7.7, 0.7)), ((-5.5, -5.5), (-4.4, -1.1))]),
]


def base_frame(fi, n, active):
    import pandas as pd
    from spatialpandas import GeoDataFrame
    pts, kind, other = FRAMES[fi]
    return GeoDataFrame({
        "g1": L.make_array("point", pts[:n], "float64"),
        "val": np.arange(n) * 10,
        "txt": [f"s{i}" for i in range(n)],
        "g2": L.make_array(kind, other[:n], "float64"),
    }, index=pd.Index(np.arange(n) + 100, name="idx"), geometry=active)


def rows_of(df):
    g1 = df["g1"].array.data.to_pylist()
    g2 = df["g2"].array.data.to_pylist()

    def h(v):
        return tuple(h(x) for x in v) if isinstance(v, list) else v
    return [(int(v), t, h(a), h(b)) for v, t, a, b in zip(df["val"].tolist(), df["txt"].tolist(), g1, g2)]


def provenances(P0, n):
    """yield (name, dask frame) -- all hold exactly the rows of P0"""
    import dask.dataframe as dd
    for k in range(1, n + 1):
        yield f"from_pandas({k})", dd.from_pandas(P0, npartitions=k)
    # already Hilbert-sorted input
    act = P0.geometry.name
    hd = P0[act].hilbert_distance(total_bounds=P0[act].total_bounds, p=10)
    Ps = P0.iloc[np.argsort(hd.values, kind="stable")]
    yield "sorted_input(2)", dd.from_pandas(Ps, npartitions=2, sort=False)
    # active geometry switched on the Dask frame
    other = "g2" if act == "g1" else "g1"
    yield "dask_set_geometry(2)", dd.from_pandas(P0.set_geometry(other), npartitions=min(2, n)).set_geometry(act)
    # rows that define a larger extent are filtered away AFTER the partition bounds were cached
    import pandas as pd
    from spatialpandas import GeoDataFrame
    ext = P0.iloc[:2].copy()
    ext["val"] = [9990, 9991]
    ext.index = pd.Index([990, 991], name="idx")
    far = {"g1": L.make_array("point", [(-20, -20), (30, 40)], "float64")}
    kind2 = P0["g2"].dtype.name.split("[")[0]
    far_el = {"polygon": [(sq(-20, -20, -19, -19),), (sq(30, 40, 31, 41),)], "line": [((-20, -20), (-19, -19)), ((30, 40), (31, 41))],
              "multipoint": [((-20, -20),), ((30, 40),)]}[kind2]
    far["g2"] = L.make_array(kind2, far_el, "float64")
    ext["g1"], ext["g2"] = far["g1"], far["g2"]
    big = GeoDataFrame(pd.concat([P0, ext]), geometry=act)
    dbig = dd.from_pandas(big, npartitions=min(3, n))
    dbig.partition_sindex
    _ = dbig.geometry.total_bounds
    yield "cached_bounds_then_filter", dbig[dbig["val"] < 9000]
    # spatial index built on the partitions before packing (state carried on the arrays)
    yield "build_sindex(2)", dd.from_pandas(P0, npartitions=min(2, n)).build_sindex()
    # an already packed frame (another p) and a packed-then-filtered frame: the old distances must not survive
    try:
        prev = dd.from_pandas(P0, npartitions=min(2, n)).pack_partitions(npartitions=1, p=7)
        prev.compute(scheduler="synchronous")
        yield "repacked(p=7)", prev
        pb = dbig.pack_partitions(npartitions=1, p=5)
        pb.compute(scheduler="synchronous")
        yield "packed_big_then_filter", pb[pb["val"] < 9000]
    except (AssertionError, IndexError):
        pass
    # an input partition emptied by a filter, re-filled by concatenating the complement
    if n >= 3:
        d3 = dd.from_pandas(P0, npartitions=3)
        first = d3.partitions[0].compute(scheduler="synchronous")["val"].tolist()
        a = d3[~d3["val"].isin(first)]
        b = d3[d3["val"].isin(first)]
        yield "filter_emptied+concat", dd.concat([a, b])


def check_pack(col, fi, n, active, thorough):
    P0 = base_frame(fi, n, active)
    want_rows = sorted(rows_of(P0))
    tb = P0[active].total_bounds
    results = {}
    for pname, ddf in provenances(P0, n):
        light = not thorough and not pname.startswith("from_pandas")
        for npk in (range(1, n + 3) if thorough else (sorted({1, 3}) if light else sorted({1, 2, 3, n, n + 2}))):
            for p in (PLIST if thorough else ((3, 10) if light else (1, 3, 10, 20))):
                case = {"frame": fi, "n": n, "active": active, "provenance": pname, "npartitions": npk, "p": p}
                col.count("evaluations")
                try:
                    packed = ddf.pack_partitions(npartitions=npk, p=p)
                    parts = [d.compute(scheduler="synchronous") for d in packed.to_delayed()]
                    comp = packed.compute(scheduler="synchronous")
                except Exception as ex:
                    col.count("raised_exempt")
                    col.outcome(f"raised:{type(ex).__name__}")
                    continue
                col.count("returned")
                col.outcome("returned")
                if npk > 1:
                    col.count("nontrivial")
                # rows conserved
                got_rows = sorted(rows_of(comp))
                if got_rows != want_rows:
                    col.violation("rows", case, f"packed rows differ: {len(got_rows)} rows vs {len(want_rows)}; "
                                  f"missing {[r[0] for r in want_rows if r not in got_rows]} extra {[r[0] for r in got_rows if r not in want_rows]}")
                    continue
                if list(comp.columns) != ["g1", "val", "txt", "g2"] or type(comp).__name__ != "GeoDataFrame":
                    col.violation("columns", case, f"columns {list(comp.columns)} type {type(comp).__name__}")
                # per-row index == hilbert distance of its own active geometry against the whole frame's bounds
                want_hd = np.asarray(comp[active].array.hilbert_distance(total_bounds=tuple(tb), p=p))
                if comp.index.tolist() != want_hd.tolist():
                    col.violation("index_not_hilbert_distance", case,
                                  f"index {comp.index.tolist()} but distances of the rows' own {active} are {want_hd.tolist()}")
                if comp.index.name != "hilbert_distance":
                    col.violation("index_name", case, f"index name {comp.index.name!r}")
                # monotone within and across partitions
                flat = [v for d in parts for v in d.index.tolist()]
                if flat != sorted(flat) or flat != comp.index.tolist():
                    col.violation("not_monotone", case, f"partition indexes {[d.index.tolist() for d in parts]}")
                # requested number of partitions
                if packed.npartitions != npk or len(parts) != npk:
                    col.violation("npartitions", case,
                                  f"requested {npk}: .npartitions={packed.npartitions}, real partitions={len(parts)}, "
                                  f"distances {comp.index.tolist()}", claimed=packed.npartitions, real=len(parts),
                                  consistent=(packed.npartitions == len(parts)))
                # independence of the input partitioning: same rows per equal-index run
                runs = {}
                for idx, r in zip(comp.index.tolist(), rows_of(comp)):
                    runs.setdefault(idx, []).append(r)
                sig = tuple((k, tuple(sorted(v))) for k, v in sorted(runs.items()))
                prev = results.setdefault((npk, p), (pname, sig))
                if prev[1] != sig:
                    col.violation("depends_on_input_partitioning", case, f"result differs between {prev[0]} and {pname}")
    # default arguments (npartitions=None -> 8 below 2^23 rows, p=15)
    import dask.dataframe as dd
    case = {"frame": fi, "n": n, "active": active, "provenance": "from_pandas(2)", "npartitions": None, "p": 15}
    col.count("evaluations")
    try:
        packed = dd.from_pandas(P0, npartitions=min(2, n)).pack_partitions()
        comp = packed.compute(scheduler="synchronous")
        if sorted(rows_of(comp)) != want_rows:
            col.violation("rows", case, "default arguments: rows differ")
        want_hd = np.asarray(comp[active].array.hilbert_distance(total_bounds=tuple(tb), p=15))
        if comp.index.tolist() != want_hd.tolist() or comp.index.tolist() != sorted(comp.index.tolist()):
            col.violation("index_not_hilbert_distance", case, f"default arguments: index {comp.index.tolist()} vs {want_hd.tolist()}")
        if packed.npartitions != 8:
            col.violation("npartitions", case, f"default npartitions: {packed.npartitions}", claimed=packed.npartitions, real=-1,
                          consistent=True)
    except Exception:
        col.count("raised_exempt")
    col.sample({"frame": fi, "n": n, "active": active, "provenance": "from_pandas(2)", "npartitions": 3, "p": 10})


def check_big(col, scratch, active):
    """14 rows / 12 partitions: from_pandas, parquet read-back, parquet read-back through bounds= (textual vs numeric
    partition order in the stored bounds)"""
    import dask.dataframe as dd
    import pandas as pd
    from spatialpandas import GeoDataFrame
    from spatialpandas.io import read_parquet_dask
    n = 14
    pts = [(3 * i, (i * 5) % 14) for i in range(n)]
    polys = [(sq(40 - 3 * i, i, 41 - 3 * i, i + 1),) for i in range(n)]
    P0 = GeoDataFrame({"g1": L.make_array("point", pts, "float64"), "val": np.arange(n) * 10, "txt": [f"s{i}" for i in range(n)],
                       "g2": L.make_array("polygon", polys, "float64")}, index=pd.Index(np.arange(n) + 100, name="idx"), geometry=active)
    path = os.path.join(scratch, f"c09big-{os.getpid()}.parq")
    dd.from_pandas(P0, npartitions=12).to_parquet(path, overwrite=True)
    provs = [("from_pandas(12)", lambda: dd.from_pandas(P0, npartitions=12)),
             ("parquet(12)", lambda: read_parquet_dask(path, geometry=active))]
    for bx in ((-100, -100, 100, 100), (0, -100, 20, 100), (10, 3, 30, 9), (25, -1, 45, 6)):
        provs.append((f"parquet(12,bounds={bx})", (lambda b: (lambda: read_parquet_dask(path, geometry=active, bounds=b)))(bx)))
    for pname, mk in provs:
        try:
            ref = mk().compute(scheduler="synchronous")
        except Exception as ex:
            col.violation("provenance.raises", {"frame": "big", "n": n, "active": active, "provenance": pname, "npartitions": 0, "p": 10},
                          f"{type(ex).__name__}: {str(ex)[:200]}")
            continue
        if len(ref) == 0:
            continue
        want_rows = sorted(rows_of(ref))
        tb = ref[active].total_bounds
        for npk in (3, 12):
            case = {"frame": "big", "n": n, "active": active, "provenance": pname, "npartitions": npk, "p": 10}
            col.count("evaluations")
            try:
                comp = mk().pack_partitions(npartitions=npk, p=10).compute(scheduler="synchronous")
            except Exception:
                col.count("raised_exempt")
                continue
            col.count("returned")
            col.count("nontrivial")
            if sorted(rows_of(comp)) != want_rows:
                col.violation("rows", case, "packed rows differ")
                continue
            want_hd = np.asarray(comp[active].array.hilbert_distance(total_bounds=tuple(tb), p=10))
            if comp.index.tolist() != want_hd.tolist() or comp.index.tolist() != sorted(comp.index.tolist()):
                col.violation("index_not_hilbert_distance", case,
                              f"index {comp.index.tolist()} but distances of the rows' own {active} are {want_hd.tolist()}")


def run(ctx):
    n = 6 if ctx.thorough else 4
    units = [(fi, nn, a) for fi in range(len(FRAMES)) for a in ("g1", "g2") for nn in ((n,) if not ctx.thorough else (3, 5, 6))]
    if not ctx.thorough:
        units += [(fi, 6, a) for fi in range(len(FRAMES)) for a in ("g1", "g2")][ctx.seed % 3::3]
    for fi in range(len(FRAMES)):
        P = base_frame(fi, 3, "g1")
        P["g1"].hilbert_distance(p=3), P["g2"].hilbert_distance(p=3)

    scratch = ctx.scratch()
    units += [("big", 14, "g1"), ("big", 14, "g2")]

    def work(col, i):
        fi, nn, a = units[i]
        if fi == "big":
            check_big(col, scratch, a)
            return
        check_pack(col, fi, nn, a, ctx.thorough)

    core.pmap(ctx, work, len(units), timeout=7200)
    c = ctx.col.counters
    ctx.coverage_extra["returned"] = int(c.get("returned", 0))
    ctx.coverage_extra["raised_exempt"] = int(c.get("raised_exempt", 0))
    ctx.rule = ("3 frames x both active geometry columns x n rows x provenances (from_pandas(k) for every k, pre-sorted input, "
                "input partition emptied by a filter) x npartitions 1..n+2 x p in {1,2,3,10,15,20}. Non-trivial = returned "
                "runs with more than one requested partition.")
    ctx.assumptions = ["a raise (at call or at compute) is outside the claim and only counted",
                       "the expected distance of a row comes from the pandas hilbert_distance, which C08 ties to the reference curve"]


def replay(ctx, case):
    col = core.Collector()
    if case["frame"] == "big":
        check_big(col, ctx.scratch(), case["active"])
        return col.violations
    check_pack(col, case["frame"], case["n"], case["active"], False)
    return [v for v in col.violations if v["case"]["provenance"] == case["provenance"]
            and v["case"]["npartitions"] == case["npartitions"] and v["case"]["p"] == case["p"]]
