"""C10 -- pack_partitions_to_parquet leaves a complete, clean, re-readable dataset.

E1: frames (1..8 rows, duplicate geometries so that quantiles collide, missing geometry, two
geometry columns) x input partitionings x npartitions in 1..16 (every emptiness pattern the rows
can produce) x tempdir_format in {default, outside with {uuid}, outside without {uuid}, outside
but sharing the dataset path as a prefix, with a format spec} x compression x a previous dataset
(larger / smaller) at the path with overwrite=True.  Observed on the REAL directory tree.
"""
import json
import os
import shutil

import numpy as np

from .. import core
from .. import lattice as L
from ..faultfs import LISTING_ORDERS, VerifFS

LEVEL = "exploration"
RETRY = dict(wait_exponential_multiplier=1, wait_exponential_max=1, stop_max_attempt_number=3)     # the keys of the library's own default, 1 ms waits


def sq(x0, y0, x1, y1):
    return ((x0, y0), (x1, y0), (x1, y1), (x0, y1), (x0, y0))


PTS = [(0, 0), (7, 7), (7, 7), None, (3, 6), (1, 7), (0, 0), (6, 1)]
POLYS = [(sq(5, 5, 7, 7),), (sq(0, 0, 1, 1),), None, (sq(0, 6, 1, 7),), (sq(0, 0, 1, 1),), (sq(6, 0, 7, 2),), (sq(2, 2, 3, 3),), ()]
# all points on one vertical line: degenerate x extent
PTS_DEG = [(4, 0), (4, 7), (4, 3), (4, 3), None, (4, 1), (4, 6), (4, 2)]


# 14 distinct rows: enough for more than ten non-empty output partitions (part.10 sorts before part.2 as text)
PTS_BIG = [(x, (x * 5) % 14) for x in range(14)]
POLYS_BIG = [(sq(x, x, x + 1, x + 1),) for x in range(14)]


def make_frame(fid, n, active):
    import pandas as pd
    from spatialpandas import GeoDataFrame
    if fid == 2:
        return GeoDataFrame({
            "pts": L.make_array("point", PTS_BIG[:n], "float64"),
            "val": np.arange(n) * 10,
            "polys": L.make_array("polygon", POLYS_BIG[:n], "float64"),
        }, index=pd.Index(np.arange(n) + 100, name="idx"), geometry=active)
    pts = (PTS if fid == 0 else PTS_DEG)[:n]
    return GeoDataFrame({
        "pts": L.make_array("point", pts, "float64"),
        "val": np.arange(n) * 10,
        "polys": L.make_array("polygon", POLYS[:n], "float64"),
    }, index=pd.Index(np.arange(n) + 100, name="idx"), geometry=active)


def rows_of(df):
    def h(v):
        return tuple(h(x) for x in v) if isinstance(v, list) else v
    a = df["pts"].array.data.to_pylist()
    b = df["polys"].array.data.to_pylist()
    return [(int(v), h(x), h(y)) for v, x, y in zip(df["val"].tolist(), a, b)]


def tree(root):
    """sorted list of (relative path, 'd'|'f') below root"""
    out = []
    for dp, dn, fn in os.walk(root):
        for d in dn:
            out.append((os.path.relpath(os.path.join(dp, d), root), "d"))
        for f in fn:
            out.append((os.path.relpath(os.path.join(dp, f), root), "f"))
    return sorted(out)


TEMP_MODES = ("default", "outside_uuid", "outside_nouuid", "prefix_sharing", "format_spec", "trailing_slash")
NM = len(TEMP_MODES)


def tempdir_format(mode, path, tmpbase):
    if mode == "default":
        return None, None
    if mode == "outside_uuid":
        return os.path.join(tmpbase, "tmp-{uuid}-{partition}"), tmpbase
    if mode == "outside_nouuid":
        return os.path.join(tmpbase, "tmp-{partition}"), tmpbase
    if mode == "prefix_sharing":
        return path + ".tmp/part-{uuid}-{partition}", path + ".tmp"
    if mode == "format_spec":
        return os.path.join(tmpbase, "t{partition:03d}-{uuid}"), tmpbase
    if mode == "trailing_slash":
        return os.path.join(tmpbase, "tmp-{uuid}-{partition}") + "/", tmpbase
    raise ValueError(mode)


PROC_SCRIPT = r"""
import json, os, sys
sys.path[:0] = [sys.argv[1], sys.argv[2]]


def main():
    import dask
    import dask.dataframe as dd
    from vf.checks import c10
    from spatialpandas.io import read_parquet_dask
    work = sys.argv[3]
    out = {}
    P = c10.make_frame(2, 14, "pts")
    for sched in ("synchronous", "processes"):
        kw = dict(scheduler=sched) if sched == "synchronous" else dict(scheduler=sched, num_workers=2)
        path = os.path.join(work, sched + ".parq")
        tmpl = os.path.join(work, "tmp-" + sched, "t-{uuid}-{partition}")
        os.makedirs(os.path.dirname(tmpl), exist_ok=True)
        try:
            with dask.config.set(**kw):
                ret = dd.from_pandas(P, npartitions=3).pack_partitions_to_parquet(path, npartitions=4, p=6, tempdir_format=tmpl,
                                                                                 _retry_args=c10.RETRY)
                got = sorted(int(v) for v in ret.compute()["val"].tolist())
            back = sorted(int(v) for v in read_parquet_dask(path).compute(scheduler="synchronous")["val"].tolist())
            out[sched] = {"returned": got, "read_back": back, "tree": [list(t) for t in c10.tree(path)],
                          "temp_left": [list(t) for t in c10.tree(os.path.dirname(tmpl))]}
        except Exception as ex:
            out[sched] = {"raised": type(ex).__name__ + ": " + str(ex)[:200]}
    print("RESULT " + json.dumps(out))


if __name__ == "__main__":
    main()
"""


def process_scheduler(col, scratch):
    """the same call with Dask's multiprocessing scheduler (workers share no memory with the caller), in a process of its
    own: the dataset must be the one the synchronous scheduler leaves"""
    import subprocess
    import sys
    work = os.path.join(scratch, f"proc-{os.getpid()}")
    shutil.rmtree(work, ignore_errors=True)
    os.makedirs(work)
    script = os.path.join(work, "proc_run.py")
    with open(script, "w") as f:
        f.write(PROC_SCRIPT)
    repo = os.environ.get("VERIF_REPO", "/repo")
    verif = os.path.dirname(os.path.dirname(os.path.dirname(os.path.abspath(__file__))))
    case = {"frame": 2, "n": 14, "scheduler": "processes"}
    col.count("evaluations", 2)
    try:
        r = subprocess.run([sys.executable, script, repo, verif, work], capture_output=True, text=True, timeout=900,
                           env=dict(os.environ, PYTHONPATH=f"{repo}:{verif}"))
    except subprocess.TimeoutExpired:
        col.count("process_scheduler_unavailable")
        col.note("process-scheduler run timed out (not counted as a result)")
        return
    line = next((ln for ln in r.stdout.splitlines() if ln.startswith("RESULT ")), None)
    if line is None:
        # the environment cannot run a process pool here: this complement is skipped, nothing is claimed from it
        col.count("process_scheduler_unavailable")
        col.note(f"process-scheduler run produced no result: rc={r.returncode} {r.stderr[-300:]}")
        return
    out = json.loads(line[7:])
    sync, proc = out.get("synchronous"), out.get("processes")
    if "raised" in sync:
        col.count("process_scheduler_unavailable")
        col.note(f"reference run of the process-scheduler complement raised: {sync['raised']}")
        return
    if "raised" in proc:
        col.violation("processes.raises", case, f"scheduler='processes': {proc['raised']}")
    elif proc != sync:
        diff = {k: (proc[k], sync[k]) for k in sync if proc.get(k) != sync[k]}
        col.violation("processes.differs", case, f"scheduler='processes' leaves {json.dumps(diff)[:500]} (second = synchronous)")
    shutil.rmtree(work, ignore_errors=True)


def run_one(col, scratch, fid, n, active, kin, npk, mode, compression, previous, p=6, provenance="from_pandas"):
    import dask.dataframe as dd
    from spatialpandas.io import read_parquet_dask
    case = {"frame": fid, "n": n, "active": active, "input_partitions": kin, "npartitions": npk, "tempdir": mode,
            "compression": compression, "previous": previous, "provenance": provenance}
    work = os.path.join(scratch, f"w{os.getpid()}")
    shutil.rmtree(work, ignore_errors=True)
    os.makedirs(work)
    path = os.path.join(work, "ds.parq")
    tmpbase = os.path.join(work, "tmpbase")
    os.makedirs(tmpbase)
    P0 = make_frame(fid, n, active)
    if provenance == "cached_filter":
        # the frame to pack is a row selection of a larger frame whose partition bounds were already cached
        import pandas as pd
        from spatialpandas import GeoDataFrame
        far = GeoDataFrame({"pts": L.make_array("point", [(-40, -40), (90, 70)], "float64"), "val": [9990, 9991],
                            "polys": L.make_array("polygon", [(sq(-40, -40, -39, -39),), (sq(90, 70, 91, 71),)], "float64")},
                           index=pd.Index([990, 991], name="idx"))
        big = GeoDataFrame(pd.concat([P0, far]), geometry=active)
        dbig = dd.from_pandas(big, npartitions=kin)
        dbig.partition_sindex
        _ = dbig.geometry.total_bounds
        ddf = dbig[dbig["val"] < 9000]
    else:
        ddf = dd.from_pandas(P0, npartitions=kin)
    fmt, tmproot = tempdir_format(mode, path, tmpbase)
    kw = dict(npartitions=npk, p=p, compression=compression, tempdir_format=fmt, _retry_args=RETRY)
    if npk == 8 and (n + kin) % 2 == 0:
        # the rarely used spellings of the same request: default npartitions (8 below 2^23 rows), filesystem by name,
        # empty option dictionaries
        del kw["npartitions"]
        kw.update(filesystem="file", storage_options={}, engine_kwargs={})
    # the order a filesystem lists a directory in is its own business: three quarters of the cases run on an
    # instrumented local filesystem that answers `ls` reversed / oldest first / newest first
    # ... and so is the spelling of the dataset path: a third of the cases name the directory with a trailing slash
    slash = "/" if (n + 2 * kin + npk) % 3 == 0 else ""
    case["path_spelling"] = "trailing_slash" if slash else "plain"
    order = LISTING_ORDERS[(n + kin + npk + fid) % 4]
    case["listing"] = order
    fs_read = None
    if order != "native" and "filesystem" not in kw:
        kw["filesystem"] = VerifFS(listing=order)
        fs_read = VerifFS(listing=order)
    try:
        if previous != "none":
            nprev = 8 if previous == "larger" else 2
            prevf = make_frame(0, nprev, "pts").assign(val=lambda d: d["val"] + 1000)
            if previous == "single_file":
                prevf.to_parquet(path)            # the previous dataset is one parquet FILE at the path
            else:
                prev = dd.from_pandas(prevf, npartitions=1)
                prev.pack_partitions_to_parquet(path, npartitions=(12 if previous == "larger" else 1), p=p, _retry_args=RETRY)
            kw["overwrite"] = True
        col.count("evaluations")
        ret = ddf.pack_partitions_to_parquet(path + slash, **kw)
        ret_comp = ret.compute(scheduler="synchronous")
        ret_parts = ret.npartitions
    except Exception as ex:
        col.violation("call.raises", case, f"{type(ex).__name__}: {str(ex)[:300]}", tempdir=mode, previous=previous)
        shutil.rmtree(work, ignore_errors=True)
        return
    # ---- directory tree
    t = tree(path)
    files = [pth for pth, k in t if k == "f"]
    dirs = [pth for pth, k in t if k == "d"]
    parts = sorted([f for f in files if f.startswith("part.")], key=lambda s: int(s.split(".")[1]))
    k = len(parts)
    expect = sorted([f"part.{i}.parquet" for i in range(k)] + ["_metadata", "_common_metadata"])
    if npk > 1 and k < npk:
        col.count("nontrivial")          # some output partitions came out empty
    col.outcome(f"k={min(k, 9)}/{min(npk, 17)}")
    if dirs or sorted(files) != expect or k < 1 or k > npk:
        col.violation("dataset_layout", case, f"dataset tree {t}; expected exactly {expect}", tempdir=mode,
                      has_dirs=bool(dirs))
    # ---- nothing left outside
    left = tree(tmproot) if tmproot and os.path.isdir(tmproot) else []
    if left or (mode == "prefix_sharing" and os.path.exists(tmproot) and os.listdir(tmproot)):
        col.violation("temp_leftovers", case, f"temporary directory tree not empty: {left}", tempdir=mode)
    other = [e for e in os.listdir(work) if e not in ("ds.parq", "tmpbase", "ds.parq.tmp")]
    if other:
        col.violation("stray_outside", case, f"unexpected entries next to the dataset: {other}")
    # ---- rows: returned frame and independent read
    want = sorted(rows_of(P0), key=repr)
    tb = P0[active].total_bounds
    try:
        indep = read_parquet_dask(path + slash) if fs_read is None else read_parquet_dask(path + slash, filesystem=fs_read)
        indep_parts = [d.compute(scheduler="synchronous") for d in indep.to_delayed()]
        indep_comp = indep.compute(scheduler="synchronous")
    except Exception as ex:
        col.violation("reread.raises", case, f"{type(ex).__name__}: {str(ex)[:300]}", tempdir=mode)
        shutil.rmtree(work, ignore_errors=True)
        return
    for name, comp, nparts in (("returned", ret_comp, ret_parts), ("reread", indep_comp, indep.npartitions)):
        col.count("evaluations")
        if sorted(rows_of(comp), key=repr) != want:
            col.violation(f"rows.{name}", case, f"{name} frame rows differ from the input: got vals {sorted(comp['val'].tolist())}",
                          previous=previous)
            continue
        # same active geometry convention as C09: index == distance of the packing geometry
        hd = np.asarray(comp[active].array.hilbert_distance(total_bounds=tuple(tb), p=p))
        if comp.index.tolist() != hd.tolist() or comp.index.tolist() != sorted(comp.index.tolist()):
            col.violation(f"order.{name}", case, f"{name} index {comp.index.tolist()} vs Hilbert distances {hd.tolist()}")
        if nparts != k:
            col.violation(f"npartitions.{name}", case, f"{name} frame has {nparts} partitions, dataset has {k} part files")
    if any(len(d) == 0 for d in indep_parts):
        col.violation("empty_part_file", case, f"part sizes {[len(d) for d in indep_parts]}")
    flat = [v for d in indep_parts for v in d.index.tolist()]
    if flat != sorted(flat):
        col.violation("parts_not_ordered", case, f"part indexes {[d.index.tolist() for d in indep_parts]}")
    shutil.rmtree(work, ignore_errors=True)
    col.sample(case)


def plan(ctx):
    T = ctx.thorough
    cases = []
    ns = (1, 2, 3, 5, 8) if not T else (1, 2, 3, 4, 5, 6, 7, 8)
    i = 0
    for fid in (0, 1):
        for n in ns:
            for active in ("pts", "polys"):
                if fid == 1 and active == "polys":
                    continue
                for kin in (1, 2, 3):
                    if kin > n:
                        continue
                    for npk in range(1, 17):
                        i += 1
                        # rotate the remaining axes in quick so that every value meets every npartitions
                        modes = TEMP_MODES if T else (TEMP_MODES[i % NM], TEMP_MODES[(i // NM + 2) % NM])
                        for mode in dict.fromkeys(modes):
                            comps = ("snappy", "gzip", None) if T and n in (3, 8) else (("snappy", "gzip", None)[(i + len(mode)) % 3],)
                            for comp in comps:
                                prevs = ("none", "larger", "smaller", "single_file") if (T and kin == 1) else (("none", "none", "larger", "smaller", "single_file")[(i + npk) % 5],)
                                for prev in prevs:
                                    cases.append((fid, n, active, kin, npk, mode, comp, prev))
    # more than ten INPUT partitions (sub-part files part10.parquet sort before part2.parquet as text)
    for j, npk in enumerate((2, 3, 5) if not T else (1, 2, 3, 4, 5, 8)):
        for active in ("pts", "polys"):
            cases.append((2, 14, active, 12 + (j % 2) * 2, npk, TEMP_MODES[(j * 2 + 1) % NM], "snappy", "none"))
    # frames that are row selections of a larger frame with cached partition bounds
    for j, npk in enumerate((1, 2, 3, 4, 6, 9) if not T else range(1, 13)):
        for fid, n in ((0, 5), (0, 8), (2, 14)):
            for active in ("pts", "polys"):
                cases.append((fid, n, active, 1 + (j + n) % 3, npk, TEMP_MODES[(j + n) % NM], "snappy", "none", 6, "cached_filter"))
    for j, npk in enumerate((11, 12, 13, 14, 16) if not T else range(9, 17)):
        for kin in (1, 3):
            for active in ("pts", "polys"):
                cases.append((2, 14, active, kin, npk, TEMP_MODES[(j + kin) % NM], "snappy", ("none", "larger")[j % 2]))
    return cases


def run(ctx):
    scratch = ctx.scratch()
    cases = plan(ctx)
    P = make_frame(0, 3, "pts")
    P["pts"].hilbert_distance(p=3), P["polys"].hilbert_distance(p=3)
    NCH = 64

    def work(col, ci):
        if ci == 0:
            process_scheduler(col, scratch)
        for j in range(ci, len(cases), NCH):
            run_one(col, scratch, *cases[(j + ctx.seed) % len(cases)])

    core.pmap(ctx, work, NCH, timeout=7200)
    ctx.coverage_extra["runs"] = len(cases)
    ctx.rule = ("frames (two row pools incl. a degenerate extent, n rows, either geometry active) x input partitions 1..3 x "
                "npartitions 1..16 x tempdir_format (6 kinds, one ending in a slash) x compression x previous dataset (larger, smaller, or a single parquet file) with overwrite=True; in quick "
                "the last three axes rotate over the full (frame, n, input partitions, npartitions) product. Non-trivial = "
                "runs in which some requested output partitions came out empty.")
    ctx.assumptions = ["_retry_args=(1 ms waits, 3 attempts) so that a failing run cannot stall the exploration",
                       "temp formats keep {uuid}/{partition} in the leaf directory name"]


def replay(ctx, case):
    col = core.Collector()
    run_one(col, ctx.scratch(), case["frame"], case["n"], case["active"], case["input_partitions"], case["npartitions"],
            case["tempdir"], case["compression"], case["previous"], provenance=case.get("provenance", "from_pandas"))
    return col.violations
