"""C16 -- derived arrays hold the same elements and behave like fresh ones.

E2 (explicit-state BFS over derivation histories on the real arrays): base arrays of all seven
kinds (two ordinary, one empty, one missing element; float64 and int32), operations = integer
indexing, slices with any step, boolean masks, take with/without fill, concatenation, copy,
iteration, pickle, parquet, GeoSeries iloc/loc, GeoDataFrame row selection.  Reference model = a
Python list of element ids.  Invariant in every state: elements equal the model's, and EVERY
derived quantity equals the same selection of the quantity computed once on the base array.
"""
import io
import itertools
import os
import pickle

import numpy as np

from .. import bfs, core
from .. import lattice as L
from .. import oracle as O

LEVEL = "model_checking"
NAN = float("nan")

SQ = ((0, 0), (4, 0), (4, 4), (0, 4), (0, 0))
SQ2 = ((6, 2), (9, 2), (9, 5), (6, 2))
HOLE = ((1, 1), (1, 2), (2, 2), (1, 1))

BASES = {
    "point": [(1, 2), None, (5, 3), ()],
    "multipoint": [((0, 0), (3, 4)), (), None, ((5, 1),)],
    "line": [((0, 0), (2, 6), (4, 0)), None, (), ((4, 2), (4, 5))],
    "ring": [SQ, (), SQ2, None],
    "multiline": [(((0, 0), (1, 5)), ((7, 1), (2, 2))), None, (((3, 3), (3, 6)),), ()],
    "polygon": [(SQ, HOLE), (), None, (SQ2,)],
    "multipolygon": [((SQ,), (SQ2,)), None, (), ((SQ, HOLE),)],
}
NESTED_EMPTY = {"multiline": ((),), "polygon": ((),), "multipolygon": (((),),)}
BOXES = [(0, 0, 1, 1), (-1, -1, 10, 10), (3, 3, 5, 5), (1.25, 1.25, 1.5, 1.5), (5, 0, 6, 1), (4, 2, 4.5, 3),
         (10, 10, 0, 0), (6, 3, 7, 4), (2, 5, 3, 7)]
HD_BOUNDS = (-2.0, -2.0, 14.0, 14.0)


def base_elems(kind, st, long=False):
    el = list(BASES[kind])
    if kind == "point" and not st.startswith("float"):
        el[3] = (0, 0)
    if kind in NESTED_EMPTY and st == "int32":
        # the other spelling of an element without coordinates: its only line / ring / polygon has no vertex
        el[el.index(())] = NESTED_EMPTY[kind]
    if long:
        # 20 elements: the validity bitmap spans three bytes; missing elements on both sides of the byte boundaries
        pres = [e for e in el if e is not None]
        out = [pres[i % len(pres)] for i in range(20)]
        for i in (1, 7, 8, 10, 15, 18):
            out[i] = None
        return out
    return el


def shapes_for_points():
    tri2 = ((4, 2), (7, 2), (7, 5), (4, 2))
    return [("point", (1, 2)), ("multipoint", ((5, 3), (9, 9))), ("line", ((0, 1), (2, 3))),
            ("polygon", (SQ,)), ("multipolygon", ((SQ, HOLE), (tri2,)))]


class Base:
    """quantities computed once on the base array"""

    def __init__(self, kind, st, long=False):
        self.kind, self.st = kind, st
        self.elems = base_elems(kind, st, long)
        self.arr = L.make_array(kind, self.elems, st)
        a = self.arr
        self.py = a.data.to_pylist()
        self.miss = next(i for i, e in enumerate(self.elems) if e is None)
        self.q = {
            "isna": np.asarray(a.isna()),
            "bounds": np.asarray(a.bounds, dtype=float),
            "length": np.asarray(a.length, dtype=float),
            "area": np.asarray(a.area, dtype=float),
            "hd": np.asarray(a.hilbert_distance(total_bounds=HD_BOUNDS, p=4)),
        }
        for k, b in enumerate(BOXES):
            self.q[f"ib{k}"] = np.asarray(a.intersects_bounds(b))
        if kind == "point":
            self.shapes = [L.make_scalar(k, e, "float64") for k, e in shapes_for_points()]
            for k, s in enumerate(self.shapes):
                self.q[f"ix{k}"] = np.asarray(a.intersects(s))
        self.scalars = [a[i] for i in range(len(a))]
        if st == "int32" and not long:
            a.build_sindex(page_size=2)        # the source carries a built index: whatever a derived array inherits must fit ITS rows

    def sel(self, name, ids):
        q = self.q[name]
        rows = [self.miss if i is None else i for i in ids]
        return q[rows] if len(rows) else q[:0]


def _numbers(g):
    """coordinates of a scalar geometry as nested lists of python numbers"""
    if g is None:
        return None
    if hasattr(g, "flat_values") and not hasattr(g, "listarray"):
        return [float(v) for v in g.flat_values]

    def conv(v):
        if isinstance(v, (list, tuple)):
            return [conv(x) for x in v]
        return float(v)
    return conv(g.data.as_py())


def _same_numbers(a, b):
    if a is None or b is None:
        return a is None and b is None
    if isinstance(a, list):
        return isinstance(b, list) and len(a) == len(b) and all(_same_numbers(x, y) for x, y in zip(a, b))
    return a == b or (a != a and b != b)


def eqf(a, b):
    a = np.asarray(a)
    b = np.asarray(b)
    if a.shape != b.shape:
        return False
    if a.dtype.kind == "f" or b.dtype.kind == "f":
        a = a.astype(float)
        b = b.astype(float)
        return bool(np.all((a == b) | (np.isnan(a) & np.isnan(b))))
    return bool(np.all(a == b))


def layout_key(arr):
    bufs = arr.data.buffers()
    return (arr.data.offset, tuple(0 if b is None else b.size for b in bufs))


# ------------------------------------------------------------------------------------------------
# operation menu
# ------------------------------------------------------------------------------------------------
def slice_menu(full):
    vals = [None, -5, -4, -3, -2, -1, 0, 1, 2, 3, 4, 5] if full else [None, -5, -2, -1, 0, 1, 2, 3, 5]
    steps = [None, 1, 2, -1, -2]
    return [("slice", a, b, s) for a in vals for b in vals for s in steps]


def long_menu(n):
    starts = [None, 1, 7, 8, 9, 15, 16, 17]
    stops = [None, 12, 17, -1, -3]
    ops = [("slice", a, b, s) for a in starts for b in stops for s in (None, 2)]
    ops += [("mask", tuple(i % 3 != 1 for i in range(n))), ("mask", tuple(8 <= i < 17 for i in range(n)))]
    ops += [("take", tuple(range(n - 1, -1, -1)), False), ("take", (8, 7, 16, 0, n - 1) if n > 16 else tuple(range(min(n, 3))), False),
            ("take", (-1, 8, 9, -1) if n > 9 else (-1,), True)]
    ops += [("concat_self",), ("copy",), ("pickle",), ("series_iloc", 8, None), ("series_iloc", 16, None), ("frame_iloc", tuple(range(8, n)))]
    return ops


def ops_for_factory(full, with_parquet_depth, long=False):
    smenu = slice_menu(full)

    def ops_for_long(arr, ids, depth):
        return long_menu(len(ids))

    if long:
        return ops_for_long

    def ops_for(arr, ids, depth):
        n = len(ids)
        ops = list(smenu)
        if n <= 5:
            ops += [("mask", bits) for bits in itertools.product((0, 1), repeat=n)]
        else:
            ops += [("mask", tuple((i * 5 + k) % 3 != 0 for i in range(n))) for k in range(3)]
        rng = list(range(-min(n, 3), min(n, 4)))
        idxs = [()] + [(i,) for i in rng] + [(i, j) for i in rng for j in rng]
        # triples: every non-decreasing and every non-increasing index triple (duplicates and gaps)
        tri = [t for t in itertools.combinations_with_replacement(rng, 3)]
        idxs3 = tri + [t[::-1] for t in tri if t[::-1] != t]
        ops += [("take", idx, False) for idx in idxs + idxs3]
        ops += [("getitem_list", idx) for idx in tri[::3]]
        idxs_f = [()] + [(i,) for i in range(-1, min(n, 4))] + [(i, j) for i in range(-1, min(n, 4)) for j in range(-1, min(n, 4))]
        ops += [("take", idx, True) for idx in idxs_f]
        ops += [("take", t, True) for t in itertools.combinations_with_replacement(range(-1, min(n, 4)), 3)]
        ops += [("getitem_list", idx) for idx in idxs[:12]]
        if n <= 8:
            ops += [("concat_self",), ("concat_base",), ("concat_base_first",)]
        ops += [("copy",), ("pickle",), ("series_iloc", 1, None), ("series_iloc", None, -1), ("series_iloc_list", (n - 1, 0) if n else ()),
                ("series_loc_mask", tuple(i % 2 == 0 for i in range(n))), ("frame_iloc", tuple(range(n - 1, -1, -1))),
                ("frame_mask", tuple(i % 2 == 1 for i in range(n))), ("series_copy",)]
        if depth < with_parquet_depth and n > 0:
            ops.append(("parquet",))
        return ops
    return ops_for


def model_apply(ids, op, base_n):
    """reference model: list of ids. Returns new ids, or an exception class the op must raise."""
    n = len(ids)
    t = op[0]
    if t == "slice":
        return ids[slice(op[1], op[2], op[3])]
    if t in ("mask", "series_loc_mask", "frame_mask"):
        return [ids[i] for i, b in enumerate(op[1]) if b]
    if t in ("take", "getitem_list"):
        idx = op[1]
        fill = op[2] if t == "take" else False
        if n == 0 and len(idx) > 0 and (not fill or any(i >= 0 for i in idx)):
            return IndexError
        out = []
        for i in idx:
            if fill:
                if i < -1:
                    return ValueError
                if i >= n:
                    return IndexError
                out.append(None if i == -1 else ids[i])
            else:
                if i >= n or i < -n:
                    return IndexError
                out.append(ids[i])
        return out
    if t == "concat_self":
        return ids + ids
    if t == "concat_base":
        return ids + list(range(base_n))
    if t == "concat_base_first":
        return list(range(base_n)) + ids
    if t in ("copy", "pickle", "parquet", "series_copy"):
        return list(ids)
    if t == "series_iloc":
        return ids[slice(op[1], op[2])]
    if t == "series_iloc_list":
        return [ids[i] for i in op[1]]
    if t == "frame_iloc":
        return [ids[i] for i in op[1]]
    raise ValueError(op)


def real_apply(arr, op, base, scratch):
    import pandas as pd
    from spatialpandas import GeoDataFrame, GeoSeries
    t = op[0]
    if t == "slice":
        return arr[slice(op[1], op[2], op[3])]
    if t == "mask":
        return arr[np.array(op[1], dtype=bool)]
    if t == "take":
        if op[2]:
            # the fill value for "missing" in every spelling a caller may use
            import math
            spell = [None, np.nan, float("nan"), math.nan, np.float64("nan"), np.float32("nan"), arr.dtype.na_value, "omitted"]
            fv = spell[(len(op[1]) + sum(abs(int(v)) for v in op[1])) % len(spell)]
            if fv == "omitted":
                return arr.take(list(op[1]), allow_fill=True)
            return arr.take(list(op[1]), allow_fill=True, fill_value=fv)
        return arr.take(list(op[1]), allow_fill=op[2])
    if t == "getitem_list":
        return arr[list(op[1])] if len(op[1]) else arr[[]]
    if t == "concat_self":
        return type(arr)._concat_same_type([arr, arr])
    if t == "concat_base":
        return type(arr)._concat_same_type([arr, base.arr])
    if t == "concat_base_first":
        return type(arr)._concat_same_type([base.arr, arr])
    if t == "copy":
        return arr.copy()
    if t == "pickle":
        return pickle.loads(pickle.dumps(arr))
    if t == "series_copy":
        return GeoSeries(arr).copy(deep=True).array
    if t == "series_iloc":
        return GeoSeries(arr, index=[f"k{i}" for i in range(len(arr))]).iloc[op[1]:op[2]].array
    if t == "series_iloc_list":
        return GeoSeries(arr).iloc[list(op[1])].array
    if t == "series_loc_mask":
        s = GeoSeries(arr, index=[f"k{i}" for i in range(len(arr))])
        return s.loc[np.array(op[1], dtype=bool)].array
    if t == "frame_iloc":
        df = GeoDataFrame({"v": np.arange(len(arr)), "g": arr})
        return df.iloc[list(op[1])]["g"].array
    if t == "frame_mask":
        df = GeoDataFrame({"g": arr, "v": np.arange(len(arr))})
        return df[np.array(op[1], dtype=bool)]["g"].array
    if t == "parquet":
        from spatialpandas.io import read_parquet, to_parquet
        path = os.path.join(scratch, f"c16-{os.getpid()}.parquet")
        df = GeoDataFrame({"g": arr})
        to_parquet(df, path)
        out = read_parquet(path)["g"].array
        os.unlink(path)
        return out
    raise ValueError(op)


# ------------------------------------------------------------------------------------------------
# invariants
# ------------------------------------------------------------------------------------------------
def expected_py(base, ids):
    return [None if i is None else base.py[i] for i in ids]


def case_of(base, hist, extra=None):
    c = {"kind": base.kind, "subtype": base.st, "long": len(base.elems) > 4, "history": [list(map(lambda x: list(x) if isinstance(x, tuple) else x, op)) for op in hist]}
    if extra:
        c.update(extra)
    return c


def check_elements(col, base, arr, ids, hist):
    col.count("evaluations")
    ok = type(arr) is type(base.arr) and len(arr) == len(ids) and arr.dtype == base.arr.dtype
    if ok:
        ok = arr.data.to_pylist() == expected_py(base, ids)
    if not ok:
        got = arr.data.to_pylist() if hasattr(arr, "data") else repr(arr)
        col.violation(f"{base.kind}.elements", case_of(base, hist),
                      f"after {hist[-3:]}: elements {got} expected ids {ids}", op=hist[-1][0] if hist else "")
    return ok


def check_state(col, base, arr, ids, hist):
    """the full invariant, evaluated once per distinct state"""
    n = len(ids)
    case = case_of(base, hist)
    op = hist[-1][0] if hist else "base"
    col.count("evaluations")
    if len(set(i for i in ids if i is not None)) >= 2 or (n and any(i is None for i in ids)):
        col.count("nontrivial")
    # operations that DERIVE something must not modify the array they are applied to: run them first (results
    # discarded), then evaluate the invariant on the same object
    import pandas as pd
    from spatialpandas import GeoSeries
    other_st = {"float64": "int64", "int32": "float32"}[base.st]
    for probe in (lambda: arr.fillna(method="ffill"), lambda: arr.fillna(method="bfill", limit=1), lambda: arr.copy(),
                  lambda: arr.take([0, -1], allow_fill=True) if n else None, lambda: arr.isna().fill(True),
                  lambda: np.asarray(arr.bounds).fill(0.0) if n else None, lambda: pickle.dumps(arr),
                  lambda: arr.argsort() if base.kind != "point" else None, lambda: GeoSeries(arr).isna().values.fill(True)):
        try:
            probe()
        except Exception:
            pass
    # concatenation with an array of another coordinate subtype of the same byte width keeps every element's numbers
    try:
        col.count("evaluations")
        valid_ids = [i for i in ids if i is not None]
        if n and valid_ids and base.kind != "point" or (base.kind == "point" and n):
            oth_elems = [(0, 0) if (base.kind == "point" and e == () and not other_st.startswith("float")) else e for e in base.elems]
            oth = L.make_array(base.kind, oth_elems, other_st)
            cat = pd.concat([GeoSeries(arr), GeoSeries(oth)], ignore_index=True)
            got = [None if (g is None or (isinstance(g, float) and g != g)) else _numbers(g) for g in cat.tolist()]
            want = [None if i is None else _numbers(base.scalars[i]) for i in ids] + [None if g is None else _numbers(g) for g in list(oth)]
            if not _same_numbers(got, want):
                bad = next(k for k, (x, y) in enumerate(zip(got, want)) if not _same_numbers(x, y))
                col.violation(f"{base.kind}.concat_mixed_subtype", case,
                              f"pd.concat with a {other_st} array changed element {bad}: {got[bad]} expected {want[bad]} after {hist[-3:]}", op=op)
    except Exception as ex:
        col.violation(f"{base.kind}.concat_mixed_subtype.raises", case, f"{type(ex).__name__}: {str(ex)[:200]}", op=op)
    quantities = [("isna", lambda a: a.isna()), ("bounds", lambda a: a.bounds), ("length", lambda a: a.length),
                  ("area", lambda a: a.area),
                  ("hd", lambda a: a.hilbert_distance(total_bounds=HD_BOUNDS, p=4))]
    for k, b in enumerate(BOXES):
        quantities.append((f"ib{k}", (lambda bb: (lambda a: a.intersects_bounds(bb)))(b)))
    if base.kind == "point":
        for k, s in enumerate(base.shapes):
            quantities.append((f"ix{k}", (lambda ss: (lambda a: a.intersects(ss)))(s)))
    for name, fn in quantities:
        try:
            got = np.asarray(fn(arr))
        except Exception as ex:
            col.violation(f"{base.kind}.{name}.raises", case, f"{name} raised {type(ex).__name__}: {str(ex)[:200]} after {hist[-3:]}", op=op)
            continue
        want = base.sel(name, ids)
        if name == "bounds":
            want = want.reshape(n, 4)
            got = got.reshape(n, 4) if got.size == n * 4 else got
        if not eqf(got, want):
            col.violation(f"{base.kind}.{name}", case,
                          f"{name} on derived array {got.tolist()} != selection of base {want.tolist()} after {hist[-3:]}", op=op)
    # a selection made through cx (it goes through a spatial index when the array carries one)
    try:
        for k in (2, 5):
            b = BOXES[k]
            col.count("evaluations")
            sel = arr.cx[b[0]:b[2], b[1]:b[3]]
            mask = np.asarray(base.sel(f"ib{k}", ids), dtype=bool)
            want_py = [base.py[i] for i, m in zip([base.miss if i is None else i for i in ids], mask) if m]
            if sel.data.to_pylist() != want_py:
                col.violation(f"{base.kind}.cx", case, f"cx[{b}] on the derived array selects {sel.data.to_pylist()} expected {want_py} after {hist[-3:]}", op=op)
    except Exception as ex:
        col.violation(f"{base.kind}.cx.raises", case, f"{type(ex).__name__}: {str(ex)[:200]} after {hist[-3:]}", op=op)
    # total bounds from the model
    try:
        tb = np.asarray(arr.total_bounds, dtype=float)
        bsel = base.sel("bounds", ids).reshape(n, 4)
        bsel = bsel[[i is not None for i in ids]] if n else bsel
        with np.errstate(all="ignore"):
            import warnings
            with warnings.catch_warnings():
                warnings.simplefilter("ignore")
                want = np.array([np.nanmin(bsel[:, 0]) if len(bsel) else NAN, np.nanmin(bsel[:, 1]) if len(bsel) else NAN,
                                 np.nanmax(bsel[:, 2]) if len(bsel) else NAN, np.nanmax(bsel[:, 3]) if len(bsel) else NAN])
        if not eqf(tb, want):
            col.violation(f"{base.kind}.total_bounds", case, f"total_bounds {tb.tolist()} expected {want.tolist()} after {hist[-3:]}", op=op)
    except Exception as ex:
        col.violation(f"{base.kind}.total_bounds.raises", case, f"{type(ex).__name__}: {ex}", op=op)
    # equality with a freshly constructed array, scalars, iteration
    try:
        fresh = L.make_array(base.kind, [None if i is None else base.elems[i] for i in ids], base.st)
        if n and not bool(np.all(arr == fresh)):
            col.violation(f"{base.kind}.eq_fresh", case, f"derived array != freshly constructed array after {hist[-3:]}", op=op)
        items = list(arr)
        for k, i in enumerate(ids):
            want = None if i is None else base.scalars[i]
            g1, g2 = arr[k], arr[k - n]
            for g in (items[k], g1, g2):
                if (g is None) != (want is None) or (want is not None and not (g == want)):
                    col.violation(f"{base.kind}.scalar", dict(case, index=k), f"scalar at {k}: {g!r} expected {want!r} after {hist[-3:]}", op=op)
                    break
    except Exception as ex:
        col.violation(f"{base.kind}.scalar.raises", case, f"{type(ex).__name__}: {ex} after {hist[-3:]}", op=op)
    # invalid requests raise what pandas expects
    invalid = [("index_high", lambda: arr[n], IndexError), ("index_low", lambda: arr[-n - 1], IndexError),
               ("mask_len", lambda: arr[np.ones(n + 1, dtype=bool)], IndexError),
               ("mask_too_long_false_tail", lambda: arr[np.array([True] * n + [False, False])], IndexError),
               ("mask_too_long_list", lambda: arr[[True] * n + [False]], IndexError),
               ("take_oob", lambda: arr.take([n]), IndexError),
               ("take_fill_lt", lambda: arr.take([-2], allow_fill=True), ValueError),
               ("take_fill_value", lambda: arr.take([0] if n else [-1], allow_fill=True, fill_value=1.5), ValueError)]
    if n:
        import pandas as pd
        invalid.append(("mask_na", lambda: arr[pd.array([True] * (n - 1) + [pd.NA], dtype="boolean")], ValueError))
        invalid.append(("int_na", lambda: arr[pd.array([0] * (n - 1) + [pd.NA], dtype="Int64")], ValueError))
        invalid.append(("take_low", lambda: arr.take([-n - 1]), IndexError))
    else:
        invalid.append(("take_empty", lambda: arr.take([0]), IndexError))
    for name, fn, exc in invalid:
        col.count("evaluations")
        try:
            fn()
        except exc:
            continue
        except Exception as ex:
            col.violation(f"{base.kind}.invalid.{name}", case, f"{name}: raised {type(ex).__name__} instead of {exc.__name__}", op=op)
            continue
        col.violation(f"{base.kind}.invalid.{name}", case, f"{name}: did not raise {exc.__name__}", op=op)


# ------------------------------------------------------------------------------------------------
# driver
# ------------------------------------------------------------------------------------------------
def wrap_probe(col, base):
    """wrapping in a Series with another index selects by LABEL (pandas semantics): GeoSeries(series, index=...), reindex, loc"""
    import pandas as pd
    from spatialpandas import GeoSeries
    n = len(base.elems)
    labels = [f"L{i}" for i in range(n)]
    case = {"kind": base.kind, "subtype": base.st, "long": n > 4, "history": [["wrap_probe"]]}
    order = list(range(n))[::-1][1:] + [None, 0]            # permuted, one label dropped, one unknown label, one at the end
    new_index = [labels[i] if i is not None else "unknown" for i in order]
    want = [None if i is None else base.py[i] for i in order]
    try:
        src = pd.Series(base.arr, index=labels)
        forms = {"GeoSeries(series, index=)": lambda: GeoSeries(src, index=new_index),
                 "GeoSeries(GeoSeries, index=)": lambda: GeoSeries(GeoSeries(base.arr, index=labels), index=new_index),
                 "reindex": lambda: GeoSeries(base.arr, index=labels).reindex(new_index),
                 "loc[list]": lambda: GeoSeries(base.arr, index=labels).loc[[l for l in new_index if l != "unknown"]]}
        for name, fn in forms.items():
            col.count("evaluations")
            g = fn()
            w = want if name != "loc[list]" else [x for x, l in zip(want, new_index) if l != "unknown"]
            wi = new_index if name != "loc[list]" else [l for l in new_index if l != "unknown"]
            got = g.array.data.to_pylist()
            if list(g.index) != wi or got != w:
                col.violation(f"{base.kind}.wrap_by_label", dict(case, form=name), f"{name} with index {wi}: elements {got} expected {w}")
    except Exception as ex:
        col.violation(f"{base.kind}.wrap_by_label.raises", case, f"{type(ex).__name__}: {str(ex)[:200]}")


def explore(col, kind, st, depth, full, shard, nshards, scratch, parquet_depth, long=False):
    base = Base(kind, st, long)
    if shard == 0:
        wrap_probe(col, base)
    ops_for = ops_for_factory(full, parquet_depth, long)

    def key(arr, ids):
        return (tuple(ids), layout_key(arr))

    def apply_op(arr, ids, op, hist):
        if not hist and nshards > 1:
            # shard the first level of the tree across workers (each worker still evaluates the root)
            if hash_op(op) % nshards != shard:
                return None
        want = model_apply(ids, op, len(base.elems))
        try:
            got = real_apply(arr, op, base, scratch)
        except Exception as ex:
            if isinstance(want, type) and isinstance(ex, want):
                col.outcome("raised_as_expected")
                return None
            col.violation(f"{kind}.op.raises", case_of(base, hist + [op]),
                          f"{op} on ids {ids} raised {type(ex).__name__}: {str(ex)[:200]} (model: {want if isinstance(want, type) else 'ok'})",
                          op=op[0])
            return None
        if isinstance(want, type):
            col.violation(f"{kind}.op.no_raise", case_of(base, hist + [op]),
                          f"{op} on ids {ids} should raise {want.__name__}", op=op[0])
            return None
        return got, want

    def on_transition(arr, ids, hist):
        check_elements(col, base, arr, ids, hist)

    def on_new_state(arr, ids, hist):
        check_state(col, base, arr, ids, hist)
        col.outcome("len=%d" % min(len(ids), 9))

    stats = bfs.bfs([(base.arr, list(range(len(base.elems))))], ops_for, apply_op, key, on_transition,
                    on_new_state, depth)
    col.count("states", stats.states)
    col.count("transitions", stats.transitions)
    col.count("max_depth_%d" % stats.max_depth)
    col.sample({"kind": kind, "subtype": st, "history": [["slice", 1, None, None], ["take", [1, 0], False]],
                "meaning": "base[1:].take([1,0]) compared with base elements [2,1] and their quantities"})


def hash_op(op):
    import zlib
    return zlib.crc32(repr(op).encode())


def run(ctx):
    scratch = ctx.scratch()
    T = ctx.thorough
    nshards = 8 if T else 2
    depth = 3 if T else 2
    full = False if T else True      # thorough: depth 3 over the reduced slice menu (+ depth 2 full below)
    units = []
    for kind in O.KINDS:
        for st in ("float64", "int32"):
            for sh in range(nshards):
                units.append((kind, st, depth, full, sh, nshards))
            if T:
                for sh in range(2):
                    units.append((kind, st, 2, True, sh, 2))
    for kind in O.KINDS:
        units.append((kind, "float64", 2, "long", 0, 1))
    # warm
    for kind in O.KINDS:
        for st in ("float64", "int32"):
            try:
                Base(kind, st)
            except Exception:
                pass

    def work(col, i):
        kind, st, d, fl, sh, ns = units[i]
        if fl == "long":
            explore(col, kind, st, d, False, sh, ns, scratch, parquet_depth=0, long=True)
            return
        explore(col, kind, st, d, fl, sh, ns, scratch, parquet_depth=2 if T else 1)

    core.pmap(ctx, work, len(units))
    c = ctx.col.counters
    ctx.coverage_extra.update({
        "states": int(c.get("states", 0)), "transitions": int(c.get("transitions", 0)),
        "traces_validated_against_impl": int(c.get("transitions", 0)),
        "depth_completed": depth, "slice_menu": "full (-5..5, steps 1,2,-1,-2)" if full else "reduced at depth 3; full at depth 2",
        "explanation": "every explored transition is executed on the real array (no separate model to validate); "
                       "states are deduplicated on (element ids, pyarrow offset, buffer sizes)",
    })
    ctx.rule = ("BFS over derivation histories from 14 base arrays; one evaluation per transition (elements vs model) "
                "and per invariant clause on each new state; non-trivial states hold >=2 distinct elements or a missing one")
    ctx.assumptions = ["derived quantities are compared with the base array's (differential oracle; the base values "
                       "themselves are tied to exact oracles by C01/C02/C13/C14)"]


def replay(ctx, case):
    col = core.Collector()
    base = Base(case["kind"], case["subtype"], case.get("long", False))
    arr, ids = base.arr, list(range(len(base.elems)))
    hist = []
    scratch = ctx.scratch()
    if case["history"] and case["history"][0] == ["wrap_probe"]:
        wrap_probe(col, base)
        return col.violations
    for op in case["history"]:
        op = tuple(tuple(x) if isinstance(x, list) else x for x in op)
        want = model_apply(ids, op, len(base.elems))
        try:
            arr = real_apply(arr, op, base, scratch)
        except Exception as ex:
            if isinstance(want, type) and isinstance(ex, want):
                return col.violations
            col.violation("op.raises", case, f"{op}: {type(ex).__name__}: {ex}")
            return col.violations
        if isinstance(want, type):
            col.violation("op.no_raise", case, f"{op} should raise {want.__name__}")
            return col.violations
        ids = want
        hist.append(op)
        check_elements(col, base, arr, ids, hist)
    check_state(col, base, arr, ids, hist)
    return col.violations
