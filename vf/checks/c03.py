"""C03 -- R-tree queries return exactly the intersecting / covered boxes.

Small-scope exhaustive enumeration (engine E1) of three complete sub-spaces against a brute-force
oracle; see DESIGN.md section 3/C03.
"""
import itertools
import math

import numpy as np

from .. import core

LEVEL = "exploration"
NAN = float("nan")


# ------------------------------------------------------------------------------------------------
# oracle
# ------------------------------------------------------------------------------------------------
def oracle(bounds, q):
    """bounds: (n, 2d) float array (rows fully finite or fully NaN); q: length-2d sequence.
    returns (intersecting rows, covered rows, overlapping rows) as sorted lists"""
    n = bounds.shape[0]
    d = bounds.shape[1] // 2
    inter, cov, ov = [], [], []
    for i in range(n):
        row = bounds[i]
        if any(math.isnan(v) for v in row):
            continue
        hit = all(row[k] <= q[d + k] and row[d + k] >= q[k] for k in range(d))
        if not hit:
            continue
        inter.append(i)
        inside = all(row[k] >= q[k] and row[d + k] <= q[d + k] for k in range(d))
        (cov if inside else ov).append(i)
    return inter, cov, ov


def oracle_many(bounds, queries):
    """the same brute-force definition evaluated for many queries at once (Q x n boolean tables);
    cross-checked against oracle() on the first and last query of every call"""
    n = bounds.shape[0]
    d = bounds.shape[1] // 2
    Q = np.asarray(queries, dtype=float).reshape(len(queries), 2 * d)
    valid = ~np.isnan(bounds).any(axis=1)
    inter = np.ones((len(Q), n), dtype=bool) & valid[None, :]
    cov = inter.copy()
    with np.errstate(invalid="ignore"):
        for k in range(d):
            lo, hi = bounds[:, k][None, :], bounds[:, d + k][None, :]
            qlo, qhi = Q[:, k][:, None], Q[:, d + k][:, None]
            inter &= (lo <= qhi) & (hi >= qlo)
            cov &= (lo >= qlo) & (hi <= qhi)
    cov &= inter
    for qi in ((0, len(Q) - 1) if len(Q) else ()):
        a, b, _ = oracle(bounds, Q[qi])
        if a != np.nonzero(inter[qi])[0].tolist() or b != np.nonzero(cov[qi])[0].tolist():
            raise core.HarnessError("vectorised oracle disagrees with scalar oracle")
    return inter, cov


def oracle_total_bounds(bounds):
    d = bounds.shape[1] // 2
    valid = [r for r in bounds if not any(math.isnan(v) for v in r)]
    if not valid:
        return (NAN,) * (2 * d)
    return tuple([min(r[k] for r in valid) for k in range(d)] +
                 [max(r[d + k] for r in valid) for k in range(d)])


def same_tuple(a, b):
    if len(a) != len(b):
        return False
    for x, y in zip(a, b):
        if math.isnan(x) and math.isnan(y):
            continue
        if x != y:
            return False
    return True


def jsonable(bounds):
    def enc(v):
        if math.isnan(v):
            return None
        if math.isinf(v):
            return "inf" if v > 0 else "-inf"
        return float(v)
    return [[enc(v) for v in r] for r in np.asarray(bounds, dtype=float)]


def from_jsonable(rows, d):
    if not rows:
        return np.zeros((0, 2 * d))
    return np.array([[NAN if v is None else float(v) for v in r] for r in rows], dtype=float)


# ------------------------------------------------------------------------------------------------
# one tree, many queries
# ------------------------------------------------------------------------------------------------
def check_tree(col, sub, bounds, p, page_size, queries, copied=None):
    from spatialpandas.spatialindex import HilbertRtree
    case0 = {"sub": sub, "d": bounds.shape[1] // 2, "bounds": jsonable(bounds) if bounds.shape[0] <= 64 else "large:%d" % bounds.shape[0],
             "p": p, "page_size": page_size, "copied": copied}
    try:
        if copied == "caller_overwrites":
            # the caller's own C-contiguous float64 array: left unchanged by the construction, and the caller may reuse it
            arg = np.ascontiguousarray(bounds, dtype=np.float64).copy()
            tree = HilbertRtree(arg, p=p, page_size=page_size)
            if not np.array_equal(arg, np.asarray(bounds, dtype=np.float64), equal_nan=True):
                col.violation("rtree.argument_modified", dict(case0, query=None), "HilbertRtree(bounds) modified its argument")
            arg[...] = -12345.0
            del arg
        else:
            tree = HilbertRtree(bounds, p=p, page_size=page_size)
        if copied == "pickle":
            import pickle
            tree = pickle.loads(pickle.dumps(tree))
        elif copied == "deepcopy":
            import copy
            tree = copy.deepcopy(tree)
        elif copied == "pickle_after_query":
            import pickle
            tree.intersects(queries[0]) if queries else None
            tree = pickle.loads(pickle.dumps(tree))
        tb = tuple(float(v) for v in tree.total_bounds)
    except Exception as e:   # construction must never fail
        col.violation("rtree.build", dict(case0, query=None), f"raised {type(e).__name__}: {e}")
        return
    col.count("trees")
    etb = oracle_total_bounds(bounds)
    col.count("evaluations")
    if not same_tuple(tb, etb):
        col.violation("rtree.total_bounds", dict(case0, query=None),
                      f"total_bounds={tb} expected={etb}", has_nan=bool(np.isnan(bounds).any()))
    n = bounds.shape[0]
    has_nan = bool(np.isnan(bounds).any())
    E_inter, E_cov = oracle_many(bounds, queries)
    held = []
    for qi, q in enumerate(queries):
        col.count("evaluations")
        einter = np.nonzero(E_inter[qi])[0].tolist()
        ecov = np.nonzero(E_cov[qi])[0].tolist()
        eov = np.nonzero(E_inter[qi] & ~E_cov[qi])[0].tolist()
        if 0 < len(einter) < n or (ecov and eov):
            col.count("nontrivial")
        try:
            r = tree.intersects(q)
            c, o = tree.covers_overlaps(q)
        except Exception as e:
            col.violation("rtree.query_raises", dict(case0, query=list(q)),
                          f"raised {type(e).__name__}: {e}")
            continue
        r0 = r
        r = sorted(r.tolist())
        c = sorted(c.tolist())
        o = sorted(o.tolist())
        if r != einter:
            col.violation("rtree.intersects", dict(case0, query=list(q)),
                          f"intersects={r} expected={einter}", has_nan=has_nan)
        if c != ecov or o != eov:
            col.violation("rtree.covers_overlaps", dict(case0, query=list(q)),
                          f"covers={c} overlaps={o} expected covers={ecov} overlaps={eov}",
                          has_nan=has_nan)
        col.outcome("inter=%d" % min(len(einter), 3))
        held.append((qi, r0, r))
    # the arrays returned by earlier queries must still hold their answers after later queries
    for qi, arr_obj, want in held:
        if sorted(arr_obj.tolist()) != want:
            col.violation("rtree.result_overwritten", dict(case0, query=list(queries[qi])),
                          f"answer of query {queries[qi]} changed after later queries on the same index: {sorted(arr_obj.tolist())} vs {want}")
            break
    col.sample(dict(case0, query=list(queries[len(queries) // 2]) if queries else None))


# ------------------------------------------------------------------------------------------------
# sub-space 1: tie space
# ------------------------------------------------------------------------------------------------
def intervals(vals):
    return [(a, b) for a in vals for b in vals if a <= b]


def tie_rows(d, grid):
    iv = intervals(grid)
    rows = []
    for combo in itertools.product(iv, repeat=d):
        rows.append([c[0] for c in combo] + [c[1] for c in combo])
    rows.append([NAN] * (2 * d))
    # a row that is undefined in one dimension only is undefined as a box: it is in no answer and adds nothing to total_bounds,
    # although its finite entries lie far outside everything else
    rows.append([NAN if k % d == 0 else (-50.0 if k < d else 60.0) for k in range(2 * d)] if d > 1 else [NAN, 60.0])
    return rows


def tie_queries(d, ends):
    iv = intervals(ends)
    return [tuple([c[0] for c in combo] + [c[1] for c in combo])
            for combo in itertools.product(iv, repeat=d)]


def tie_space(d, nmax, grid, ends, ps_extra, plist):
    """yield (bounds, p, page_size) ; queries fixed"""
    rows = tie_rows(d, grid)
    for n in range(0, nmax + 1):
        for seq in itertools.product(range(len(rows)), repeat=n):
            b = np.array([rows[i] for i in seq], dtype=float).reshape(n, 2 * d)
            for ps in list(range(1, n + 2)) + ps_extra:
                for p in plist:
                    yield b, p, ps


# ------------------------------------------------------------------------------------------------
# sub-space 2: tree shapes
# ------------------------------------------------------------------------------------------------
def shape_family(fam, n):
    """deterministic d=2 row families on an integer grid"""
    if fam == "identical":
        return np.tile(np.array([[1.0, 1.0, 2.0, 2.0]]), (n, 1))
    if fam == "staircase":
        return np.array([[i, i, i + 1, i + 1] for i in range(n)], dtype=float)
    if fam == "lattice":
        # overlapping boxes with duplicates, order scrambled relative to the curve
        out = []
        for i in range(n):
            j = (i * 7) % max(n, 1)
            x, y = j % 4, (j // 4) % 4
            w, h = 1 + (i % 3 == 0), 1 + (i % 2 == 0)
            out.append([x, y, x + w, y + h])
        return np.array(out, dtype=float)
    raise ValueError(fam)


def nan_variants(b, page_size):
    n = b.shape[0]
    yield "none", b
    if n >= 1:
        for where in ("front", "back"):
            c = b.copy()
            c[0 if where == "front" else n - 1] = NAN
            yield "one-" + where, c
        k = (n + 1) // 2
        c = b.copy()
        c[:k] = NAN
        yield "half-front", c
        c = b.copy()
        c[n - k:] = NAN
        yield "half-back", c
        c = b.copy()
        c[::2] = NAN
        yield "alternate", c
        c = b.copy()
        c[:] = NAN
        yield "all", c


def shape_queries(b):
    fin = b[~np.isnan(b).any(axis=1)]
    if len(fin) == 0:
        return [(0.0, 0.0, 1.0, 1.0)]
    hi = int(max(fin[:, 2].max(), fin[:, 3].max()))
    ends = sorted(set([-1, 0, 1, 2, hi // 2, hi - 1, hi, hi + 1]))
    iv = intervals(ends)
    full = (ends[0], ends[-1])
    qs = set()
    for (a, c) in iv:
        qs.add((float(a), float(a), float(c), float(c)))          # same interval on both axes
        qs.add((float(a), float(full[0]), float(c), float(full[1])))  # x slab
        qs.add((float(full[0]), float(a), float(full[1]), float(c)))  # y slab
    return sorted(qs)


# ------------------------------------------------------------------------------------------------
# sub-space 3: through GeometryArray.sindex
# ------------------------------------------------------------------------------------------------
def seam_arrays():
    from spatialpandas.geometry import (LineArray, MultiLineArray, MultiPointArray,
                                        MultiPolygonArray, PointArray, PolygonArray, RingArray)
    sq = [0, 0, 2, 0, 2, 2, 0, 2, 0, 0]
    sq2 = [3, 3, 5, 3, 5, 5, 3, 5, 3, 3]
    return {
        "point": lambda: PointArray([[0, 0], [1, 2], None, [3, 3], [1, 2]], dtype="float64"),
        "multipoint": lambda: MultiPointArray([[0, 0, 1, 1], None, [], [2, 3], [4, 4, 0, 1]]),
        "line": lambda: LineArray([[0, 0, 2, 2], [], None, [1, 3, 4, 3], [0, 0, 2, 2]]),
        "ring": lambda: RingArray([sq, None, sq2, []]),
        "multiline": lambda: MultiLineArray([[[0, 0, 1, 1], [2, 2, 3, 3]], None, [], [[4, 0, 4, 4]]]),
        "polygon": lambda: PolygonArray([[sq], None, [], [sq2], [sq]]),
        "multipolygon": lambda: MultiPolygonArray([[[sq], [sq2]], None, [], [[sq2]]]),
    }


def check_seam(col):
    for kind, mk in seam_arrays().items():
        for ps in (1, 2, 3, 512):
            for p in (1, 10):
                arr = mk()
                case0 = {"sub": "seam", "kind": kind, "page_size": ps, "p": p}
                try:
                    b = np.asarray(arr.bounds, dtype=float)
                    arr.build_sindex(page_size=ps, p=p)
                    tree = arr.sindex
                    tb = tuple(float(v) for v in tree.total_bounds)
                except Exception as e:
                    col.count("evaluations")
                    col.violation("sindex.build", dict(case0, query=None),
                                  f"raised {type(e).__name__}: {e}", kind=kind)
                    continue
                # bounds rows must be fully finite or fully NaN for the oracle to be defined
                etb = oracle_total_bounds(b)
                col.count("evaluations")
                if not same_tuple(tb, etb):
                    col.violation("sindex.total_bounds", dict(case0, query=None),
                                  f"total_bounds={tb} expected={etb}", kind=kind)
                for q in tie_queries(2, [-1, 0, 1, 2.5, 3, 6]):
                    col.count("evaluations")
                    einter, ecov, eov = oracle(b, q)
                    if 0 < len(einter) < len(b):
                        col.count("nontrivial")
                    r = sorted(int(v) for v in tree.intersects(q))
                    c, o = tree.covers_overlaps(q)
                    c = sorted(int(v) for v in c)
                    o = sorted(int(v) for v in o)
                    if r != einter:
                        col.violation("sindex.intersects", dict(case0, query=list(q)),
                                      f"intersects={r} expected={einter}", kind=kind)
                    if c != ecov or o != eov:
                        col.violation("sindex.covers_overlaps", dict(case0, query=list(q)),
                                      f"covers={c} overlaps={o} expected {ecov} {eov}", kind=kind)


# ------------------------------------------------------------------------------------------------
# driver
# ------------------------------------------------------------------------------------------------
def plan(ctx):
    """list of work units; each unit is (name, generator-factory)"""
    T = ctx.thorough
    units = []
    # tie space d=1
    units.append(("tie1", dict(d=1, nmax=4 if T else 3, grid=[0, 1, 2, 3],
                               ends=[-1, 0, 0.5, 1, 1.5, 2, 2.5, 3, 4] if T else [-1, 0, 0.5, 1, 2, 3, 4],
                               ps_extra=[512], plist=[1, 2, 10, 31])))
    units.append(("tie2", dict(d=2, nmax=3 if T else 2, grid=[0, 1, 2],
                               ends=[-1, 0, 0.5, 1, 2, 3] if T else [-1, 0, 1, 1.5, 2, 3],
                               ps_extra=[512], plist=[1, 10, 31] if T else [1, 10])))
    units.append(("tie3", dict(d=3, nmax=2 if T else 1, grid=[0, 1] if not T else [0, 1],
                               ends=[-1, 0, 0.5, 1, 2], ps_extra=[512], plist=[1, 10, 20])))
    return units


def run(ctx):
    from spatialpandas.spatialindex import HilbertRtree
    T = ctx.thorough
    # warm-up JIT in the parent (d = 1, 2, 3 are distinct specialisations of the builder only by
    # shape, not by type, so one build + both queries suffices)
    t = HilbertRtree(np.array([[0.0, 0.0, 1.0, 1.0]]), p=2, page_size=1)
    t.intersects((0.0, 0.0, 1.0, 1.0))
    t.covers_overlaps((0.0, 0.0, 1.0, 1.0))
    t1 = HilbertRtree(np.array([[0.0, 1.0]]), p=2, page_size=1)
    t1.intersects((0.0, 1.0)); t1.covers_overlaps((0.0, 1.0))
    t3 = HilbertRtree(np.array([[0.0, 0.0, 0.0, 1.0, 1.0, 1.0]]), p=2, page_size=1)
    t3.intersects((0.0,) * 3 + (1.0,) * 3); t3.covers_overlaps((0.0,) * 3 + (1.0,) * 3)

    units = plan(ctx)
    NCH = 64
    N_shape = 48 if T else 20
    plist_shape = list(range(1, 32)) if T else [1, 3, 10, 31]
    rot = ctx.seed % NCH

    def work(col, ci):
        ci = (ci + rot) % NCH
        idx = 0
        for name, kw in units:
            queries = tie_queries(kw["d"], kw["ends"])
            for b, p, ps in tie_space(kw["d"], kw["nmax"], kw["grid"], kw["ends"], kw["ps_extra"],
                                      kw["plist"]):
                idx += 1
                if idx % NCH != ci:
                    continue
                check_tree(col, name, b, p, ps, queries)
        for n in range(1, N_shape + 1):
            for ps in range(1, n + 3):
                for fam in ("identical", "staircase", "lattice"):
                    base = shape_family(fam, n)
                    for vname, b in nan_variants(base, ps):
                        idx += 1
                        if idx % NCH != ci:
                            continue
                        qs = shape_queries(b)
                        for pi, p in enumerate(plist_shape):
                            check_tree(col, "shape:%s:%s" % (fam, vname), b, p, ps, qs,
                                       copied=(None, "pickle", "deepcopy", "pickle_after_query", "caller_overwrites")[(idx + pi) % 5])
        if ci == 0:
            check_seam(col)
        if ci in (6, 7):
            # the highest curve orders with enough rows for (distance x row count) to leave 63 bits
            d = 2 if ci == 6 else 3
            for n in (3, 8, 9, 33):
                rows = []
                for i in range(n):
                    lo = [float((i * (3 + k)) % 7) for k in range(d)]
                    rows.append(lo + [v + 1.0 + (i % 2) for v in lo])
                b = np.array(rows, dtype=float)
                qs = tie_queries(d, [-1, 0, 2, 3.5, 9])
                for p in (20, 21, 29, 30, 31):
                    for ps in (1, 3, 512):
                        check_tree(col, "highp%d" % d, b, p, ps, qs, copied=(None, "pickle_after_query")[(n + p) % 2])
        if ci in (4, 5):
            # boxes with infinite extent are boxes too (a strip, a half plane, everything)
            inf = float("inf")
            if ci == 4:
                rows = [[-inf, 1], [2, inf], [-inf, inf], [0, 1], [1, 3], [NAN, NAN]]
                qs = tie_queries(1, [-1, 0, 0.5, 1, 2, 3, 4])
                d = 1
            else:
                rows = [[-inf, 0, 1, 1], [0, -inf, 1, inf], [-inf, -inf, inf, inf], [0, 0, 1, 1], [2, 2, inf, 3], [NAN] * 4]
                qs = tie_queries(2, [-1, 0, 1, 3])
                d = 2
            for n in (1, 2, 3):
                if d == 2 and n == 3:
                    continue
                for seq in itertools.product(range(len(rows)), repeat=n):
                    b = np.array([rows[i] for i in seq], dtype=float).reshape(n, 2 * d)
                    for ps in (1, 2, 512):
                        for p in (1, 10):
                            check_tree(col, "inf%d" % d, b, p, ps, qs)
        if ci in (1, 2, 3):
            for n, nvalid in ((300, 40), (300, 255), (66000, 30)):
                if (n == 66000) != (ci == 3):
                    continue
                b = np.full((n, 4), NAN)
                vi = np.arange(n - nvalid, n) if ci != 2 else np.arange(n)[:: max(1, n // nvalid)][:nvalid] + (n % 7)
                vi = np.clip(vi, 0, n - 1)
                b[vi, 0] = (vi % 9).astype(float)
                b[vi, 1] = (vi % 5).astype(float)
                b[vi, 2] = b[vi, 0] + 1 + (vi % 2)
                b[vi, 3] = b[vi, 1] + 1
                qs = [(0.0, 0.0, 3.0, 3.0), (2.0, 1.0, 9.0, 2.0), (-1.0, -1.0, 20.0, 20.0), (4.0, 4.0, 4.0, 4.0)]
                for cp in (None, "pickle", "deepcopy"):
                    for ps in (1, 7, 512):
                        check_tree(col, "large_nan", b, 10, ps, qs, copied=cp)

    core.pmap(ctx, work, NCH)
    ctx.rule = ("complete enumeration of (i) every sequence of n rows over all closed intervals on a "
                "small grid plus the NaN row, x page sizes 1..n+1 and 512, x p, x every query interval "
                "product over the listed ends (d=1,2,3); (ii) every (n,page_size) tree shape up to N "
                "for three row families x NaN placements x p x grid-aligned queries; (iii) "
                "GeometryArray.sindex for one array per kind with missing/empty elements. "
                "A (tree, query) case is non-trivial when the expected answer is a proper non-empty "
                "subset of the rows or has both covered and overlapping rows.")
    ctx.coverage_extra["bounds"] = {
        "tie": {u[0]: {k: v for k, v in u[1].items()} for u in units},
        "shape": {"n_max": N_shape, "page_size": "1..n+2", "p": plist_shape},
    }
    ctx.assumptions = ["rows are fully finite or fully NaN", "query corners in order",
                       "float64 bounds on small integer/half-integer grids (exact)"]


def replay(ctx, case):
    col = core.Collector()
    if case["sub"] == "seam":
        check_seam(col)
        return [v for v in col.violations if v["case"].get("kind") == case["kind"]]
    if isinstance(case["bounds"], str):
        raise core.HarnessError("large case: rerun the check (the array is generated, not stored)")
    b = from_jsonable(case["bounds"], case["d"])
    qs = [tuple(case["query"])] if case.get("query") else []
    check_tree(col, case["sub"], b, case["p"], case["page_size"], qs, copied=case.get("copied"))
    return col.violations
