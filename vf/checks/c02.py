"""C02 -- point-versus-shape `intersects` is exact (the predicate behind sjoin).

E1: every shape of the lattice families (six kinds) x EVERY integer test point of [-1, 2G+1]^2
x point subtypes x forms (scalar Point.intersects, PointArray.intersects on the full array, with
missing points at front/middle/back, sliced with non-zero offset, with inds vectors,
GeoSeries.intersects), against the exact classification oracle.  Points on a polygon ring are
exempt from the truth value but the forms must still agree there.
"""
import numpy as np

from .. import core
from .. import lattice as L
from .. import oracle as O
from .c01 import jelem, telem, inds_vectors

LEVEL = "exploration"
CHUNK = 64
SHAPE_KINDS = ("point", "multipoint", "line", "multiline", "polygon", "multipolygon")


def _shift1(x):
    if x is None:
        return None
    if isinstance(x, (tuple, list)):
        return tuple(_shift1(v) for v in x)
    return x + 1


def check_chunk(col, kind, shapes, G, subtypes, seed, chunk_id=0, transforms=None, qpts=None, half=False):
    """half=True: the shapes get half-integer coordinates ((e+1)/2, float64) while the points stay on the integers, so that
    integer-subtype points meet shapes their own subtype cannot represent (oracle in doubled coordinates)"""
    from spatialpandas import GeoSeries
    qpts = qpts or L.all_query_points(G)
    PX = np.array([p[0] for p in qpts], dtype=np.int64)
    PY = np.array([p[1] for p in qpts], dtype=np.int64)
    if half:
        shapes = [_shift1(e) for e in shapes]
        OX, OY = 2 * PX, 2 * PY
        transforms = [(1, 0, 0), (1, 500, -500), (1, -3, 7)][chunk_id % 3:][:1] if transforms is None else transforms
    else:
        OX, OY = PX, PY
    npt = len(qpts)
    # layout with missing points: front / middle / back
    mid = npt // 2
    with_none = [None] + qpts[:mid] + [None] + qpts[mid:] + [None]
    none_pos = [0, mid + 1, npt + 2]
    real_pos = [i for i in range(npt + 3) if i not in none_pos]
    base = {"kind": kind, "G": G, "half": half}

    for sti, st in enumerate(subtypes):
        tlist = transforms or [L.transform_for(st, seed, salt=chunk_id)]
        if transforms is None and st in ("int16", "int32") and not half:
            # scale 2^8 / 2^16: products of coordinate differences are multiples of 2^16 / 2^32 (wrap to 0 in the subtype's own arithmetic)
            tlist = tlist + [((256, 0, 0) if st == "int16" else (65536, 0, 0))]
        if transforms is None and st == "float64":
            # always also place lattice point (2,2) at the origin: a missing fixed-width point is
            # stored as zero bytes, i.e. as the point (0,0)
            tlist = tlist + [(1, -2, -2)]
        for T in tlist:
            parr = L.make_array("point", qpts, st, T)
            parr_none = L.make_array("point", with_none, st, T)
            parr_sl = parr_none[1:]                     # non-zero offset, starts at a real point
            parr_ix = L.make_array("point", with_none, st, T)
            try:
                parr_ix.build_sindex(page_size=3)          # state carried on the object must not matter
            except Exception:
                parr_ix = None
            ivs = inds_vectors(npt + 3)
            ser = GeoSeries(parr_none, index=[f"p{i}" for i in range(npt + 3)])
            scalars = [parr[i] for i in range(npt)]
            shape_st = "float64" if half else ("float64", st)[(chunk_id + sti) % 2]
            sarr = L.make_array(kind, shapes, shape_st, (0.5, T[1], T[2]) if half else T)
            for si, e in enumerate(shapes):
                shape = sarr[si]
                exp, defined = O.classify_points(kind, e, OX, OY)
                col.count("nontrivial", int((exp & defined).sum()) + int((~defined).sum()))
                case = dict(base, shape=jelem(e), subtype=st, shape_subtype=shape_st, T=list(T))
                # ---- full array
                col.count("evaluations", npt)
                try:
                    got = np.asarray(parr.intersects(shape))
                except Exception as ex:
                    col.violation(f"{kind}.array.raises", dict(case, form="array"),
                                  f"{type(ex).__name__}: {ex}")
                    continue
                bad = np.nonzero((got != exp) & defined)[0]
                if len(bad):
                    b = int(bad[0])
                    col.violation(f"{kind}.array", dict(case, form="array", point=list(qpts[b])),
                                  f"point {qpts[b]} vs {kind} {jelem(e)}: got {got[b]} expected {exp[b]}",
                                  subtype=st)
                ref = got          # reference for form agreement (also on ring points)
                # ---- array with missing points
                col.count("evaluations", npt + 3)
                gotn = np.asarray(parr_none.intersects(shape))
                if gotn[none_pos].any():
                    col.violation("missing_point_intersects", dict(case, form="array+missing"),
                                  f"missing point reported as intersecting {kind} {jelem(e)}: {gotn[none_pos].tolist()}",
                                  subtype=st)
                if (gotn[real_pos] != ref).any():
                    b = int(np.nonzero(gotn[real_pos] != ref)[0][0])
                    col.violation(f"{kind}.array+missing", dict(case, form="array+missing", point=list(qpts[b])),
                                  f"point {qpts[b]}: with missing neighbours {gotn[real_pos][b]} vs plain {ref[b]}")
                # ---- sliced (offset 1)
                col.count("evaluations", npt + 2)
                gots = np.asarray(parr_sl.intersects(shape))
                if (gots != gotn[1:]).any():
                    b = int(np.nonzero(gots != gotn[1:])[0][0])
                    col.violation(f"{kind}.sliced", dict(case, form="sliced", index=b),
                                  f"slice[1:] position {b}: got {gots[b]} vs unsliced {gotn[1:][b]}")
                if parr_ix is not None:
                    col.count("evaluations", npt + 3)
                    gix = np.asarray(parr_ix.intersects(shape))
                    if (gix != gotn).any():
                        b = int(np.nonzero(gix != gotn)[0][0])
                        col.violation(f"{kind}.array_with_sindex", dict(case, form="array_with_sindex", index=b),
                                      f"after build_sindex position {b}: got {gix[b]} vs {gotn[b]}")
                # ---- slices starting on byte boundaries of the validity bitmap
                for off in (8, 16):
                    col.count("evaluations", npt + 3 - off)
                    gs_ = np.asarray(parr_none[off:].intersects(shape))
                    if (gs_ != gotn[off:]).any():
                        b = int(np.nonzero(gs_ != gotn[off:])[0][0])
                        col.violation(f"{kind}.sliced", dict(case, form="sliced", offset=off, index=b),
                                      f"slice[{off}:] position {b}: got {gs_[b]} vs unsliced {gotn[off:][b]}")
                # ---- inds
                expn = np.zeros(npt + 3, dtype=bool)
                expn[real_pos] = ref
                for iv in ivs:
                    col.count("evaluations", len(iv))
                    try:
                        goti = np.asarray(parr_none.intersects(shape, iv))
                    except Exception as ex:
                        col.violation(f"{kind}.inds.raises", dict(case, form="inds", inds=iv.tolist()),
                                      f"{type(ex).__name__}: {ex}")
                        continue
                    if goti.shape != iv.shape or (goti != expn[iv]).any():
                        col.violation(f"{kind}.inds", dict(case, form="inds", inds=iv.tolist()),
                                      f"inds {iv.tolist()[:8]}..: got {goti.tolist()[:8]} expected {expn[iv].tolist()[:8]}",
                                      subtype=st)
                # ---- GeoSeries
                if (si + chunk_id) % 4 == 0:
                    col.count("evaluations", npt + 3)
                    gs = ser.intersects(shape)
                    if list(gs.index) != list(ser.index) or (gs.values != expn).any():
                        col.violation(f"{kind}.geoseries", dict(case, form="geoseries"),
                                      f"GeoSeries.intersects differs from array form")
                # ---- scalars built directly from arrays of the subtype (an element taken from an array is widened to 64 bits,
                # one constructed by the caller keeps its narrow type)
                if kind in ("line", "multipoint", "multiline") and st in ("int16", "int32", "float32") and not half and e not in (None, ()):
                    try:
                        from spatialpandas.geometry import Line, MultiLine, MultiPoint, Point
                        nested = L.to_nested(kind, e, T)
                        if kind == "multiline":
                            dshape = MultiLine([np.asarray(part, dtype=st) for part in nested])
                        else:
                            dshape = (Line if kind == "line" else MultiPoint)(np.asarray(nested, dtype=st))
                        for pi in range(0, npt, 1 if T[0] >= 256 else 3):
                            col.count("evaluations")
                            dp = Point(np.asarray(L.tf(T, *qpts[pi]), dtype=st))
                            g = bool(dp.intersects(dshape))
                            if g != bool(ref[pi]):
                                col.violation(f"{kind}.scalar_direct", dict(case, form="scalar_direct", point=list(qpts[pi])),
                                              f"Point({st}) {qpts[pi]} vs {kind}({st}) {jelem(e)} (T={T}): {g}, array form {bool(ref[pi])}", subtype=st)
                                break
                    except Exception as ex:
                        col.violation(f"{kind}.scalar_direct.raises", dict(case, form="scalar_direct"), f"{type(ex).__name__}: {ex}")
                # ---- scalar
                if st == "float64" or (si + sti) % 5 == 0:
                    for pi in range(npt):
                        col.count("evaluations")
                        col.count("scalar_evaluations")
                        try:
                            g = bool(scalars[pi].intersects(shape))
                        except Exception as ex:
                            col.violation(f"{kind}.scalar.raises", dict(case, form="scalar", point=list(qpts[pi])),
                                          f"{type(ex).__name__}: {ex}")
                            break
                        if g != bool(ref[pi]):
                            col.violation(f"{kind}.scalar", dict(case, form="scalar", point=list(qpts[pi])),
                                          f"point {qpts[pi]} vs {kind} {jelem(e)}: scalar {g} array {bool(ref[pi])} "
                                          f"(oracle {bool(exp[pi])}, defined {bool(defined[pi])})", subtype=st)
                col.outcome("true", int(exp.sum()))
                col.outcome("on_ring", int((~defined).sum()))
            col.sample({"kind": kind, "shape": jelem(shapes[0]), "points": "all %d lattice points" % npt,
                        "subtype": st, "T": list(T)})


def plan(ctx):
    T = ctx.thorough
    G = 3 if T else 2
    units = []
    for kind in ("point", "multipoint", "line", "multiline", "polygon"):
        fam = list(L.elements_for(kind, G, T))
        if kind == "line":
            fam = [e for e in fam]      # includes single-vertex and zero-length-segment lines
        for c in range(0, len(fam), CHUNK):
            units.append((kind, fam[c:c + CHUNK], G))
    if T:
        fam = list(L.elements_for("polygon", 2, True))
        for c in range(0, len(fam), CHUNK):
            units.append(("polygon", fam[c:c + CHUNK], 2))
    # multipoints / lines with many vertices (a different code path may serve large shapes): grids whose points share x and y
    grid = tuple((x, y) for x in range(0, 16, 2) for y in range(0, 10, 2))                      # 40 points, 8 columns x 5 rows
    grid_rev = tuple(sorted(grid, key=lambda p: (-p[1], p[0])))
    sparse = tuple((x, (x * 3) % 10 // 2 * 2) for x in range(0, 14, 2)) * 5                      # 35 points, many duplicates
    cols2 = tuple((x, y) for x in (2, 12) for y in range(0, 14, 2)) + tuple((x, 6) for x in range(0, 16, 2)) * 3   # 38 points
    units.append(("multipoint", [grid, grid_rev, sparse, cols2], 7))
    snake = tuple((x, y) for i, x in enumerate(range(0, 16, 2)) for y in (range(0, 10, 2) if i % 2 == 0 else range(8, -2, -2)))
    units.append(("line", [snake, snake[::-1], grid], 7))
    for kind in ("polygon", "multipolygon"):
        fam = list(L.elements_big(kind, T))
        for c in range(0, len(fam), 32):
            units.append((kind, fam[c:c + 32], 5))
    return units


def warm():
    for st in L.SUBTYPES:
        parr = L.make_array("point", [(0, 0), (1, 1), None], st)
        for kind in SHAPE_KINDS:
            fam = L.elements_for(kind, 2)[:2] if kind != "multipolygon" else L.elements_big(kind)[:2]
            for sst in ("float64", st):
                s = L.make_array(kind, list(fam), sst)[0]
                parr.intersects(s)
                parr.intersects(s, np.array([0, 1]))
                parr[0].intersects(s)


def huge_units():
    """2^26-long segments / triangles passing within one unit of the test points around the origin (see C01)"""
    from .c01 import huge_units as hu
    M = 2 ** 25
    pts = [(x, y) for x in range(-2, 3) for y in range(-2, 3)] + [(M, M), (-M, -M), (M - 1, M - 1), (M, 0), (0, -M), (M // 2, M // 2),
                                                                  (M // 2, M // 2 + 1), (-M + 1, -M + 1)]
    out = []
    for kind, el, _ in hu():
        if kind in ("line", "polygon"):
            el = [e for e in el if e not in (None, ())]
            out.append((kind, el[:64], pts))
    return out


def run(ctx):
    warm()
    units = plan(ctx)
    rot = ctx.seed % max(1, len(units))
    hu = huge_units()
    if not ctx.thorough:
        hu = hu[ctx.seed % 2::2]
    nu = len(units)

    def work(col, i):
        if i >= nu:
            kind, el, pts = hu[i - nu]
            check_chunk(col, kind, el, 0, ("float64", "int64", "int32"), ctx.seed, chunk_id=i, transforms=[(1, 0, 0)], qpts=pts)
            return
        j = (i + rot) % len(units)
        kind, shapes, G = units[j]
        check_chunk(col, kind, shapes, G, L.SUBTYPES, ctx.seed, chunk_id=j)
        if (j + ctx.seed) % (1 if ctx.thorough else 3) == 0:
            check_chunk(col, kind, shapes, G, L.SUBTYPES, ctx.seed, chunk_id=j, half=True)

    core.pmap(ctx, work, len(units) + len(hu))
    ctx.rule = ("every shape of the lattice families (points, multipoints, all vertex sequences for lines, "
                "multiline pool, every simple lattice polygon in every rotation/direction, holes family, "
                "multipolygon pool) x every integer point of [-1,2G+1]^2 x 5 point subtypes x forms. "
                "distinct_nontrivial counts (shape, point) pairs that intersect or lie on a polygon ring.")
    ctx.coverage_extra["units"] = len(units)
    ctx.coverage_extra["shapes"] = sum(len(u[1]) for u in units)
    ctx.coverage_extra["bounds"] = {"G": 3 if ctx.thorough else 2}
    ctx.assumptions = ["polygons valid, holes opposite to shell", "shapes non-empty, no empty sub-parts",
                       "points on polygon rings exempt from the truth value (form agreement still checked)"]


def tuple_minus1(x):
    if x is None:
        return None
    if isinstance(x, (tuple, list)):
        return tuple(tuple_minus1(v) for v in x)
    return x - 1


def replay(ctx, case):
    col = core.Collector()
    e = telem(case["shape"])
    if case.get("half"):
        e = tuple_minus1(e)
    check_chunk(col, case["kind"], [e], case["G"], [case["subtype"]], 0, 0,
                transforms=[tuple(case["T"])], half=bool(case.get("half")))
    return col.violations
