"""C13 -- bounds / total_bounds are the tight extents of the geometry.

E1: kind x subtype x every array of <= 3 elements over a per-kind pool (ordinary, empty, missing,
single vertex, NaN / +-inf coordinates) x derivation (as built, slice, reversed take, take with
fill, self-concatenation), zero rows; against min/max over finite coordinates in Python.
GeoSeries, Dask (1..3 partitions) and sindex.total_bounds must report the same numbers.
"""
import itertools
import math

import numpy as np

from .. import core
from .. import lattice as L
from .. import oracle as O
from .c01 import jelem, telem

LEVEL = "exploration"
NAN = float("nan")
INF = float("inf")

SQ = ((0, 0), (4, 0), (4, 4), (0, 4), (0, 0))
SQ2 = ((6, -2), (9, -2), (9, 1), (6, -2))
HOLE = ((1, 1), (1, 2), (2, 2), (1, 1))


def pools(kind, floats):
    if kind == "point":
        p = [(1, 2), (5, -3), None, ()]
        if floats:
            p += [(NAN, 4), (INF, 7), (2, -INF)]
        else:
            p = [(1, 2), (5, -3), None, (0, 0)]
        return p
    if kind == "multipoint":
        p = [((0, 0), (3, 4)), ((5, 1),), (), None, ((-2, 7), (-2, 7), (1, -1))]
        if floats:
            p += [((NAN, NAN), (2, 2)), ((INF, 1), (0, NAN))]
        return p
    if kind == "line":
        p = [((0, 0), (2, 6)), ((4, -2),), (), None, ((7, 1), (3, 1), (3, 9))]
        if floats:
            p += [((1, 1), (NAN, NAN), (3, 0)), ((-INF, 2), (5, 5))]
        return p
    if kind == "ring":
        return [SQ, SQ2, (), None]
    if kind == "multiline":
        p = [(((0, 0), (1, 5)), ((7, -1), (2, 2))), (((3, 3),),), (), None]
        if floats:
            p += [(((NAN, 1), (2, INF)),), (((1, 1), (2, 2)), ((NAN, NAN), (8, 0)))]
        return p
    if kind == "polygon":
        p = [(SQ,), (SQ, HOLE), (SQ2,), (), None]
        if floats:
            p += [(((0, 0), (NAN, NAN), (4, 4), (0, 0)),)]
        return p
    if kind == "multipolygon":
        p = [((SQ,), (SQ2,)), ((SQ, HOLE),), (), None, ((SQ2,),)]
        if floats:
            p += [((((0, 0), (INF, 3), (4, 4), (0, 0)),),)]
        return p
    raise ValueError(kind)


def tfe(kind, e, T):
    """transform an element's finite coordinates (model side)"""
    s, tx, ty = T

    def pt(p):
        return (s * p[0] + tx, s * p[1] + ty)

    if e is None or e == ():
        return e
    if kind == "point":
        return pt(e)
    if kind in ("multipoint", "line", "ring"):
        return tuple(pt(p) for p in e)
    if kind in ("multiline", "polygon"):
        return tuple(tuple(pt(p) for p in part) for part in e)
    return tuple(tuple(tuple(pt(p) for p in r) for r in poly) for poly in e)


def exp_bounds(kind, e):
    if e is None or e == ():
        return (NAN,) * 4
    vs = O.vertices(kind, e)
    xs = [float(x) for x, _ in vs if math.isfinite(x)]
    ys = [float(y) for _, y in vs if math.isfinite(y)]
    return (min(xs) if xs else NAN, min(ys) if ys else NAN, max(xs) if xs else NAN, max(ys) if ys else NAN)


def exp_total(kind, elems):
    xs, ys = [], []
    for e in elems:
        if e is None or e == ():
            continue
        for x, y in O.vertices(kind, e):
            if math.isfinite(x):
                xs.append(float(x))
            if math.isfinite(y):
                ys.append(float(y))
    return (min(xs) if xs else NAN, min(ys) if ys else NAN, max(xs) if xs else NAN, max(ys) if ys else NAN)


def eqf(a, b):
    a = np.asarray(a, dtype=float)
    b = np.asarray(b, dtype=float)
    if a.shape != b.shape:
        return False
    return bool(np.all((a == b) | (np.isnan(a) & np.isnan(b))))


def derivations(arr, model):
    """yield (name, derived array, derived model)"""
    n = len(model)
    yield "asbuilt", arr, model
    if n >= 1:
        yield "slice[1:]", arr[1:], model[1:]
        yield "take_rev", arr.take(list(range(n - 1, -1, -1))), model[::-1]
        yield "take_fill", arr.take([0, -1, n - 1], allow_fill=True), [model[0], None, model[n - 1]]
        yield "slice[:-1][1:]", arr[:-1][1:], model[:-1][1:]
    yield "concat_self", type(arr)._concat_same_type([arr, arr]), model + model
    if n >= 2:
        yield "concat_slices", type(arr)._concat_same_type([arr[1:], arr[:1]]), model[1:] + model[:1]


def check_array(col, kind, st, T, elems, dask_too=False):
    from spatialpandas import GeoSeries
    case = {"kind": kind, "subtype": st, "T": list(T), "elems": [jelem(e) for e in elems]}
    try:
        arr0 = L.make_array(kind, elems, st, T)
    except Exception as ex:
        col.violation("construct", case, f"{type(ex).__name__}: {ex}")
        return
    model0 = [tfe(kind, e, T) for e in elems]
    for name, arr, model in derivations(arr0, model0):
        col.count("evaluations")
        c = dict(case, derivation=name)
        eb = np.array([exp_bounds(kind, e) for e in model], dtype=float).reshape(len(model), 4)
        et = exp_total(kind, model)
        nontrivial = any(e is None or e == () for e in model) and any(e not in (None, ()) for e in model)
        if nontrivial:
            col.count("nontrivial")
        try:
            b = np.asarray(arr.bounds, dtype=float)
            tb = tuple(arr.total_bounds)
            tbx = tuple(arr.total_bounds_x)
            tby = tuple(arr.total_bounds_y)
        except Exception as ex:
            col.violation(f"{kind}.bounds.raises", c, f"{type(ex).__name__}: {ex}", subtype=st)
            continue
        if not eqf(b, eb):
            col.violation(f"{kind}.bounds", c, f"bounds={b.tolist()} expected={eb.tolist()}", subtype=st)
        if not eqf(tb, et):
            col.violation(f"{kind}.total_bounds", c, f"total_bounds={tb} expected={et}", subtype=st)
        if not eqf(tbx, (et[0], et[2])) or not eqf(tby, (et[1], et[3])):
            col.violation(f"{kind}.total_bounds_xy", c, f"x={tbx} y={tby} expected={et}", subtype=st)
        col.outcome("nan_rows=%d" % int(np.isnan(eb).all(axis=1).sum()))
        # GeoSeries
        try:
            ser = GeoSeries(arr, index=[10 + i for i in range(len(model))])
            sb = ser.bounds
            if list(sb.columns) != ["x0", "y0", "x1", "y1"] or list(sb.index) != list(ser.index) \
                    or not eqf(sb.values, eb) or not eqf(tuple(ser.total_bounds), et):
                col.violation(f"{kind}.geoseries", c, f"GeoSeries.bounds/total_bounds differ: {sb.values.tolist()} {ser.total_bounds}")
        except Exception as ex:
            col.violation(f"{kind}.geoseries.raises", c, f"{type(ex).__name__}: {ex}")
        # spatial index total bounds (only defined when no row is partially NaN)
        partial = np.isnan(eb).any(axis=1) & ~np.isnan(eb).all(axis=1)
        if not partial.any():
            try:
                arr_i = arr.copy()
                stb = tuple(arr_i.sindex.total_bounds)
                if not eqf(stb, et):
                    col.violation(f"{kind}.sindex_total_bounds", c, f"sindex.total_bounds={stb} expected={et}")
            except Exception as ex:
                col.violation(f"{kind}.sindex.raises", c, f"{type(ex).__name__}: {ex}")
        if dask_too and name in ("asbuilt", "take_fill") and len(model) >= 1:
            import dask.dataframe as dd
            for k in range(1, len(model) + 1):
                col.count("evaluations")
                col.count("dask_evaluations")
                try:
                    ds = dd.from_pandas(GeoSeries(arr, index=list(range(len(model)))), npartitions=k)
                    db = ds.bounds.compute(scheduler="synchronous")
                    dtb = tuple(ds.total_bounds)
                except Exception as ex:
                    col.violation(f"{kind}.dask.raises", dict(c, npartitions=k), f"{type(ex).__name__}: {ex}")
                    continue
                if not eqf(db.values, eb) or not eqf(dtb, et):
                    col.violation(f"{kind}.dask", dict(c, npartitions=k),
                                  f"dask bounds {db.values.tolist()} total {dtb} expected {eb.tolist()} {et}")
    col.sample(case)


def long_elems(kind, floats):
    pool = [e for e in pools(kind, floats) if e is not None]
    el = [pool[i % len(pool)] for i in range(20)]
    for i in (1, 7, 8, 10, 15, 18):
        el[i] = None
    return el


def check_long(col, kind, st, T):
    """20-element arrays: the validity bitmap spans three bytes; slices starting on its byte boundaries"""
    el = long_elems(kind, st.startswith("float"))
    check_array(col, kind, st, T, el, dask_too=False)
    for off, end in ((8, None), (16, None), (7, 17), (8, 16)):
        sub = el[off:end]
        case = {"kind": kind, "subtype": st, "T": list(T), "elems": [jelem(e) for e in sub], "sliced_from_long": [off, end]}
        arr = L.make_array(kind, el, st, T)[off:end]
        model = [tfe(kind, e, T) for e in sub]
        col.count("evaluations")
        col.count("nontrivial")
        eb = np.array([exp_bounds(kind, e) for e in model], dtype=float).reshape(len(model), 4)
        et = exp_total(kind, model)
        try:
            if not eqf(arr.bounds, eb) or not eqf(arr.total_bounds, et) or not eqf(arr.total_bounds_x, (et[0], et[2])) \
                    or not eqf(arr.total_bounds_y, (et[1], et[3])):
                col.violation(f"{kind}.bounds.long_slice", case, f"slice [{off}:{end}] of a 20-element array: bounds "
                              f"{np.asarray(arr.bounds).tolist()[:3]}.. total {arr.total_bounds} expected {eb.tolist()[:3]}.. {et}", subtype=st)
            a2 = arr.copy()
            stb = tuple(a2.sindex.total_bounds)
            partial = np.isnan(eb).any(axis=1) & ~np.isnan(eb).all(axis=1)
            if not partial.any() and not eqf(stb, et):
                col.violation(f"{kind}.sindex_total_bounds", case, f"sindex.total_bounds={stb} expected={et}")
            # bounds must not change once a spatial index has been built on the object
            if not eqf(a2.bounds, eb) or not eqf(a2.total_bounds, et):
                col.violation(f"{kind}.bounds.after_sindex", case, "bounds / total_bounds changed after build_sindex")
        except Exception as ex:
            col.violation(f"{kind}.bounds.raises", case, f"{type(ex).__name__}: {ex}", subtype=st)


def check_half_finite(col, kind, st):
    """an element finite on one axis only, wider than everything else, on an object that has a history: index built, queried
    through cx, pickled - bounds and total_bounds stay what the definition says"""
    import pickle
    if not st.startswith("float"):
        return
    base = [e for e in pools(kind, False) if e is not None and e != ()][:3]
    if kind == "point":
        half = [(-50.0, NAN), (NAN, 60.0)]
    elif kind in ("multipoint", "line", "ring"):
        half = [((-50.0, NAN), (70.0, NAN)), ((NAN, -40.0), (NAN, 60.0))]
    elif kind in ("multiline", "polygon"):
        half = [(((-50.0, NAN), (70.0, NAN), (-50.0, NAN)),), (((NAN, -40.0), (NAN, 60.0), (NAN, -40.0)),)]
    else:
        half = [((((-50.0, NAN), (70.0, NAN), (-50.0, NAN)),),), ((((NAN, -40.0), (NAN, 60.0), (NAN, -40.0)),),)]
    for hi, h in enumerate(half):
        elems = base[:2] + [h] + base[2:] + [None]
        case = {"kind": kind, "subtype": st, "T": [1, 0, 0], "elems": [jelem(e) for e in elems], "half_finite": hi}
        eb = np.array([exp_bounds(kind, e) for e in elems], dtype=float).reshape(len(elems), 4)
        et = exp_total(kind, elems)
        histories = {"fresh": lambda a: a, "build_sindex": lambda a: a.build_sindex(page_size=2), "sindex+cx": lambda a: (a.sindex, a.cx[0.0:1.0, 0.0:1.0], a)[2],
                     "pickled_with_index": lambda a: pickle.loads(pickle.dumps(a.build_sindex()))}
        for hname, fn in histories.items():
            col.count("evaluations")
            try:
                a = fn(L.make_array(kind, elems, st))
                if not eqf(a.bounds, eb) or not eqf(a.total_bounds, et) or not eqf(a.total_bounds_x, (et[0], et[2])) or not eqf(a.total_bounds_y, (et[1], et[3])):
                    col.violation(f"{kind}.bounds.half_finite", dict(case, history=hname),
                                  f"{hname}: bounds {np.asarray(a.bounds).tolist()} total {tuple(a.total_bounds)} x {tuple(a.total_bounds_x)} y {tuple(a.total_bounds_y)}; "
                                  f"expected {eb.tolist()} total {et}", subtype=st)
            except Exception as ex:
                col.violation(f"{kind}.bounds.half_finite.raises", dict(case, history=hname), f"{type(ex).__name__}: {ex}")


def check_many_vertices(col, kind, st, T):
    """single elements with 63..1033 vertices (the extreme vertices at the start, in the middle and at the end)"""
    from .c14 import long_family
    fam = long_family(kind)
    if not fam:
        return
    if st in ("int16", "float32"):
        T = (1, 0, 0)
    el = []
    for e in fam[:9]:
        el += [e, None]
    check_array(col, kind, st, T, el[:7], dask_too=False)
    check_array(col, kind, st, T, el[6:], dask_too=False)


def plan(ctx):
    units = []
    nmax = 3
    for kind in O.KINDS:
        for st in L.SUBTYPES:
            floats = st.startswith("float")
            pool = pools(kind, floats)
            seqs = [()]
            for n in range(1, nmax + 1):
                seqs += list(itertools.product(range(len(pool)), repeat=n))
            if not ctx.thorough and not floats:
                # integer subtypes in quick: all sequences up to length 2 and the constant triples
                seqs = [s for s in seqs if len(s) <= 2 or len(set(s)) == 1 or s[0] == s[2]]
            step = 120
            for c in range(0, len(seqs), step):
                units.append((kind, st, seqs[c:c + step]))
    return units


def run(ctx):
    # warm
    for kind in O.KINDS:
        for st in L.SUBTYPES:
            a = L.make_array(kind, pools(kind, False)[:2], st)
            a.bounds, a.total_bounds, a.total_bounds_x
    units = plan(ctx)
    rot = ctx.seed % len(units)

    def work(col, i):
        j = (i + rot) % len(units)
        kind, st, seqs = units[j]
        if seqs and seqs[0] == ():
            check_long(col, kind, st, L.transform_for(st, ctx.seed, salt=j))
            check_many_vertices(col, kind, st, L.transform_for(st, ctx.seed, salt=j))
            check_half_finite(col, kind, st)
        pool = pools(kind, st.startswith("float"))
        T = L.transform_for(st, ctx.seed, salt=j)
        for s in seqs:
            elems = [pool[k] for k in s]
            dask_too = st == "float64" and (ctx.thorough or len(s) <= 2 or len(set(s)) == 3)
            check_array(col, kind, st, T, elems, dask_too=dask_too)

    core.pmap(ctx, work, len(units))
    ctx.rule = ("every array of <=3 elements over a per-kind pool (ordinary, single vertex, empty, missing, "
                "NaN/inf coordinates for float subtypes) x 5 subtypes x 7 derivations (as built, slices, "
                "reversed take, take with fill, concatenations), zero rows included; GeoSeries, sindex and Dask "
                "(every partition count) views compared as well. distinct_nontrivial counts derived arrays "
                "mixing inert (missing/empty) and ordinary elements.")
    ctx.coverage_extra["units"] = len(units)
    ctx.assumptions = ["sindex.total_bounds compared only when no bounds row is partially NaN",
                       "coordinates exactly representable in the subtype"]


def replay(ctx, case):
    col = core.Collector()
    if "half_finite" in case:
        check_half_finite(col, case["kind"], case["subtype"])
        return col.violations
    elems = [telem(e) for e in case["elems"]]

    def fix(e):   # JSON turns NaN/inf into floats already (python json allows NaN/Infinity)
        return e
    check_array(col, case["kind"], case["subtype"], tuple(case["T"]), [fix(e) for e in elems], dask_too=True)
    return col.violations
