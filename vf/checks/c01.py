"""C01 -- box-intersection test (intersects_bounds) is geometrically exact for every geometry type.

E1: complete enumeration of lattice element families x every lattice box x 4 corner orders x
5 coordinate subtypes x forms (whole array, array with inds, sliced array, scalar, GeoSeries),
compared with the exact clipping / even-odd oracle (vf/oracle.py).
"""
import numpy as np

from .. import core
from .. import lattice as L
from .. import oracle as O

LEVEL = "exploration"
CHUNK = 96


def jelem(e):
    if e is None:
        return None
    if isinstance(e, tuple):
        return [jelem(x) for x in e]
    return e


def telem(e):
    if e is None:
        return None
    if isinstance(e, list):
        return tuple(telem(x) for x in e)
    return e


def orders(box):
    x0, y0, x1, y1 = box
    return [(x0, y0, x1, y1), (x1, y0, x0, y1), (x0, y1, x1, y0), (x1, y1, x0, y0)]


def inds_vectors(n):
    """deterministic index vectors exercising the inds= wrappers"""
    out = [np.array([], dtype=np.int64)]
    if n == 0:
        return out
    out.append(np.arange(n)[::-1].copy())
    out.append(np.arange(0, n, 3))
    k = next(k for k in (7, 5, 3, 2, 1) if np.gcd(k, n) == 1)
    out.append((np.arange(n) * k + 1) % n)
    out.append(np.array([n - 1, 0, n - 1, n // 2, 0], dtype=np.int64))
    out.append(np.array([n // 2], dtype=np.int64))
    # positions counted from the end, as take / __getitem__ accept them
    out.append(np.array([-1, 0, -n, n // 2 - n], dtype=np.int64))
    return out


def expected_table(kind, elems, boxes):
    X0, Y0, X1, Y1 = L.boxes_arrays(boxes)
    E = np.zeros((len(elems), len(boxes)), dtype=bool)
    NT = 0
    for i, e in enumerate(elems):
        E[i] = O.elem_hits_boxes(kind, e, X0, Y0, X1, Y1)
        if e is not None and e != ():
            bx0, by0, bx1, by1 = O.bounds_of(kind, e)
            overlap = (X0 <= bx1) & (X1 >= bx0) & (Y0 <= by1) & (Y1 >= by0)
            contained = (X0 <= bx0) & (bx1 <= X1) & (Y0 <= by0) & (by1 <= Y1)
            NT += int((overlap & ~contained).sum())
    # cross-check the vectorised oracle against the scalar (Fraction) one on a few cells
    for i in range(0, len(elems), max(1, len(elems) // 4)):
        for b in range(i % 7, len(boxes), max(1, len(boxes) // 5)):
            if bool(E[i, b]) != O.elem_hits_box_scalar(kind, elems[i], boxes[b]):
                raise core.HarnessError("vectorised and scalar oracle disagree")
    return E, NT


EPS_Q = 1024          # oracle works in lattice units x 1024: the shifted corners are integers again


def eps_expected(kind, elems, boxes):
    """expected tables for the boxes shrunk / grown by 1/1024 lattice unit on every side"""
    def scale(e):
        if e is None or e == ():
            return e
        if kind == "point":
            return (e[0] * EPS_Q, e[1] * EPS_Q)
        if kind in ("multipoint", "line", "ring"):
            return tuple((x * EPS_Q, y * EPS_Q) for x, y in e)
        if kind in ("multiline", "polygon"):
            return tuple(tuple((x * EPS_Q, y * EPS_Q) for x, y in part) for part in e)
        return tuple(tuple(tuple((x * EPS_Q, y * EPS_Q) for x, y in r) for r in poly) for poly in e)
    sel = boxes[::3]
    out = {}
    for name, d in (("shrunk", 1), ("grown", -1)):
        ib = [(b[0] * EPS_Q + d, b[1] * EPS_Q + d, b[2] * EPS_Q - d, b[3] * EPS_Q - d) for b in sel]
        ib = [b for b in ib if b[0] < b[2] and b[1] < b[3]] if kind not in ("point", "multipoint") else [b for b in ib if b[0] <= b[2] and b[1] <= b[3]]
        X0, Y0, X1, Y1 = L.boxes_arrays(ib)
        Ee = np.zeros((len(elems), len(ib)), dtype=bool)
        for i, e in enumerate(elems):
            Ee[i] = O.elem_hits_boxes(kind, scale(e), X0, Y0, X1, Y1)
        out[name] = (Ee, [tuple(v / EPS_Q for v in b) for b in ib])
    return out


FAR32 = (1.0, float(2 ** 24), -float(2 ** 24))


def _all_even(x):
    if x is None:
        return True
    if isinstance(x, (tuple, list)):
        return all(_all_even(v) for v in x)
    return x % 2 == 0


def check_chunk(col, kind, elems, boxes, subtypes, seed, scalar_stride=1, chunk_id=0,
                only=None, eps=True, T_fixed=None):
    """elems: list of lattice elements (may contain None and ()). boxes: ordered lattice boxes."""
    import pandas as pd  # noqa: F401
    from spatialpandas import GeoSeries
    E, NT = expected_table(kind, elems, boxes)
    col.count("nontrivial", NT)
    eps_tables = eps_expected(kind, elems, boxes) if eps else None
    n = len(elems)
    base = {"kind": kind, "elems": [jelem(e) for e in elems]}

    for sti, st in enumerate(subtypes):
        T = T_fixed or L.transform_for(st, seed, salt=chunk_id)
        if T_fixed is None and st == "float32" and (chunk_id + seed) % 3 == 0 and _all_even(elems):
            # geometry at 2^24 + even (representable in float32), box corners at 2^24 + odd (not representable): a
            # comparison carried out in float32 instead of float64 rounds the box onto the geometry
            T = FAR32
        el = elems
        Ex = E
        keep_idx = None
        if kind == "point" and not st.startswith("float"):
            keep = [i for i, e in enumerate(elems) if e != ()]
            el = [elems[i] for i in keep]
            Ex = E[keep]
            keep_idx = keep
        try:
            arr = L.make_array(kind, el, st, T)
        except Exception as ex:
            col.violation("construct", dict(base, subtype=st, T=list(T)), f"{type(ex).__name__}: {ex}")
            continue
        # a slice with non-zero pyarrow offset, and the same elements re-packed behind a prefix
        sl_a, sl_b = (2, len(el) - 1) if len(el) > 4 else (0, len(el))
        arr_sl = arr[sl_a:sl_b]
        # the same elements in an object whose spatial index has already been built (state carried on the object)
        try:
            arr_ix = L.make_array(kind, el, st, T)
            arr_ix.build_sindex(page_size=(2, 512)[sti % 2])
            _ = arr_ix.sindex.total_bounds
        except Exception as ex:
            arr_ix = None
            col.violation(f"{kind}.sindex.raises", dict(base, subtype=st, T=list(T)), f"{type(ex).__name__}: {ex}")
        ivs = inds_vectors(len(el))
        for bi, box in enumerate(boxes):
            tb = L.tf_box(T, box)
            exp = Ex[:, bi]
            for oi, ob in enumerate(orders(tb)):
                # ---- whole array
                col.count("evaluations", len(el))
                try:
                    got = np.asarray(arr.intersects_bounds(ob))
                except Exception as ex:
                    col.violation(f"{kind}.array.raises", dict(base, subtype=st, T=list(T), box=list(box),
                                                               order=oi, form="array"),
                                  f"{type(ex).__name__}: {ex}")
                    continue
                if got.shape != exp.shape or (got != exp).any():
                    bad = int(np.nonzero(got != exp)[0][0]) if got.shape == exp.shape else -1
                    col.violation(f"{kind}.array", dict(base, subtype=st, T=list(T), box=list(box),
                                                        order=oi, form="array", index=bad),
                                  f"element {bad} {jelem(el[bad]) if bad >= 0 else ''} box {box} order {oi}: "
                                  f"got {got[bad] if bad >= 0 else got.shape} expected {exp[bad] if bad >= 0 else exp.shape}",
                                  subtype=st)
                if arr_ix is not None and (oi + bi) % 2 == 0:
                    col.count("evaluations", len(el))
                    gix = np.asarray(arr_ix.intersects_bounds(ob))
                    if gix.shape != exp.shape or (gix != exp).any():
                        bad = int(np.nonzero(gix != exp)[0][0]) if gix.shape == exp.shape else -1
                        col.violation(f"{kind}.array_with_sindex", dict(base, subtype=st, T=list(T), box=list(box),
                                                                    order=oi, form="array_with_sindex", index=bad),
                                      f"after build_sindex: element {bad} box {box} order {oi}: got {gix[bad] if bad >= 0 else gix.shape} "
                                      f"expected {exp[bad] if bad >= 0 else exp.shape}", subtype=st)
                if oi != (bi + sti) % 4:
                    continue
                # ---- sliced array (non-zero offset), one corner order per box
                col.count("evaluations", sl_b - sl_a)
                got = np.asarray(arr_sl.intersects_bounds(ob))
                if (got != exp[sl_a:sl_b]).any():
                    bad = int(np.nonzero(got != exp[sl_a:sl_b])[0][0])
                    col.violation(f"{kind}.sliced", dict(base, subtype=st, T=list(T), box=list(box),
                                                         order=oi, form="sliced", index=bad + sl_a),
                                  f"slice[{sl_a}:{sl_b}] element {bad}: got {got[bad]} expected {exp[sl_a + bad]}",
                                  subtype=st)
                # ---- inds
                for iv in ivs:
                    col.count("evaluations", len(iv))
                    try:
                        got = np.asarray(arr.intersects_bounds(ob, iv))
                    except Exception as ex:
                        col.violation(f"{kind}.inds.raises", dict(base, subtype=st, T=list(T), box=list(box),
                                                                  order=oi, form="inds", inds=iv.tolist()),
                                      f"{type(ex).__name__}: {ex}")
                        continue
                    if got.shape != iv.shape or (got != exp[iv]).any():
                        col.violation(f"{kind}.inds", dict(base, subtype=st, T=list(T), box=list(box),
                                                           order=oi, form="inds", inds=iv.tolist()),
                                      f"inds={iv.tolist()} got {got.tolist()} expected {exp[iv].tolist()}",
                                      subtype=st)
        # ---- boxes whose corners lie a tiny dyadic step (2^-10 lattice units) inside / outside the lattice lines:
        #      exact in float64, NOT representable in a narrow type next to a large coordinate
        if eps_tables is not None:
            for name, (Ee, ebx) in eps_tables.items():
                for bi in range((sti + chunk_id) % 2, len(ebx), 2):
                    fb = ebx[bi]
                    tb = (T[0] * fb[0] + T[1], T[0] * fb[1] + T[2], T[0] * fb[2] + T[1], T[0] * fb[3] + T[2])
                    oi = (bi + sti) % 4
                    ob = orders(tb)[oi]
                    expe = Ee[keep_idx, bi] if keep_idx is not None else Ee[:, bi]
                    col.count("evaluations", len(el))
                    got = np.asarray(arr.intersects_bounds(ob))
                    if got.shape != expe.shape or (got != expe).any():
                        bad = int(np.nonzero(got != expe)[0][0]) if got.shape == expe.shape else -1
                        col.violation(f"{kind}.array_eps_box", dict(base, subtype=st, T=list(T), box=[float(v) for v in fb],
                                                                order=oi, form="array", eps=name, index=bad),
                                      f"{name} box {fb}: element {bad} {jelem(el[bad]) if bad >= 0 else ''}: got "
                                      f"{got[bad] if bad >= 0 else got.shape} expected {expe[bad] if bad >= 0 else expe.shape}",
                                      subtype=st)
        # ---- GeoSeries wrapper (thin): every box, one order
        if sti == seed % len(subtypes):
            ser = GeoSeries(arr, index=[f"r{i}" for i in range(len(el))])
            for bi, box in enumerate(boxes):
                ob = orders(L.tf_box(T, box))[bi % 4]
                col.count("evaluations", len(el))
                got = ser.intersects_bounds(ob)
                if list(got.index) != list(ser.index) or (got.values != Ex[:, bi]).any():
                    col.violation(f"{kind}.geoseries", dict(base, subtype=st, T=list(T), box=list(box),
                                                            order=bi % 4, form="geoseries"),
                                  f"got {got.values.tolist()} expected {Ex[:, bi].tolist()}")
        # ---- scalar form: every element x every (strided) box
        if sti == (seed + chunk_id) % len(subtypes) or st == "float64" or kind in ("point", "multipoint"):
            for i, e in enumerate(el):
                if e is None:
                    continue
                g = arr[i]
                for bi in range((i + chunk_id) % scalar_stride, len(boxes), scalar_stride):
                    ob = orders(L.tf_box(T, boxes[bi]))[(bi + i) % 4]
                    col.count("evaluations")
                    col.count("scalar_evaluations")
                    try:
                        got = bool(g.intersects_bounds(ob))
                    except Exception as ex:
                        col.violation(f"{kind}.scalar.raises", dict(base, subtype=st, T=list(T), box=list(boxes[bi]),
                                                                    order=(bi + i) % 4, form="scalar", index=i),
                                      f"{type(ex).__name__}: {ex}")
                        break
                    if got != bool(Ex[i, bi]):
                        col.violation(f"{kind}.scalar", dict(base, subtype=st, T=list(T), box=list(boxes[bi]),
                                                             order=(bi + i) % 4, form="scalar", index=i),
                                      f"element {jelem(e)} box {boxes[bi]}: got {got} expected {bool(Ex[i, bi])}",
                                      subtype=st)
        # ---- arrays handed out by the object are the caller's: writing into them must not change later answers
        try:
            arr_w = L.make_array(kind, el, st, T)
            wrote = []
            for name in ("x", "y", "bounds", "bounds_x", "bounds_y"):  # derived results (not the raw buffer accessors, which are views by design)
                try:
                    v = getattr(arr_w, name, None)
                except Exception:
                    continue
                if isinstance(v, np.ndarray) and v.flags.writeable and v.size:
                    v[...] = 77
                    wrote.append(name)
            if wrote:
                hits = Ex.sum(axis=0)
                probe = list(np.argsort(-hits, kind="stable")[:3]) + [int(b) for b in np.nonzero(hits > 0)[0][::max(1, int((hits > 0).sum()) // 5)]]
                for bi in probe:
                    bi = int(bi)
                    ob = L.tf_box(T, boxes[bi])
                    col.count("evaluations", len(el))
                    got = np.asarray(arr_w.intersects_bounds(ob))
                    goti = np.asarray(arr_w.intersects_bounds(ob, ivs[1])) if len(el) else got
                    if (got != Ex[:, bi]).any() or (len(el) and (goti != Ex[:, bi][ivs[1]]).any()):
                        col.violation(f"{kind}.aliased_result", dict(base, subtype=st, T=list(T), box=list(boxes[bi]), form="after_writing_into_results",
                                                                      written=wrote),
                                      f"after writing into the arrays returned by {wrote}: got {got.tolist()} expected {Ex[:, bi].tolist()}")
                        break
        except Exception as ex:
            col.violation(f"{kind}.aliased_result.raises", dict(base, subtype=st, T=list(T)), f"{type(ex).__name__}: {ex}")
    col.outcome("true", int(E.sum()))
    col.outcome("false", int((~E).sum()))
    col.sample({"kind": kind, "element": jelem(elems[min(3, n - 1)]), "box": list(boxes[len(boxes) // 2]),
                "expected": bool(E[min(3, n - 1), len(boxes) // 2])})


def huge_units():
    """segments about 2^26 long that pass within one unit of small boxes around the origin: the determinants
    the kernels compute are tiny exact integers while the products they are built from reach 2^52 (still exact)"""
    import itertools
    M = 2 ** 25
    P = [(-M, -M), (M, M), (M, M - 1), (M - 1, M), (-M, -M + 1), (-M + 1, -M), (M, -M), (-M, M), (M, 0), (-M, 0), (0, M), (0, -M),
         (M, 1), (-M, -1), (1, M), (-1, -M), (M, 2), (-M, -2)]
    near = [(0, 0), (1, 0), (0, 1), (-1, -1), (2, 1)]
    vals = [-2, -1, 0, 1, 2]
    boxes = [(x0, y0, x1, y1) for x0 in vals for x1 in vals if x0 < x1 for y0 in vals for y1 in vals if y0 < y1]
    lines = list(itertools.permutations(P, 2))
    units = []
    for c in range(0, len(lines), CHUNK):
        units.append(("line", [None] + lines[c:c + CHUNK], boxes))
    units.append(("multiline", [(a, b) for a, b in zip(lines[::7], lines[3::7])][:CHUNK], boxes))
    tris = []
    for a, b in list(itertools.combinations(P, 2))[::2]:
        for c in near:
            t = (a, b, c, a)
            if O.signed_area2_ring(t) != 0:
                tris.append((t,))
    for c in range(0, len(tris), CHUNK):
        units.append(("polygon", tris[c:c + CHUNK] + [()], boxes))
    units.append(("multipolygon", [(tris[i], tris[-1 - i]) for i in range(0, 40)
                                   if True][:24], boxes))
    return units


def many_vertex_units():
    """single elements with 63..1033 vertices (staircases, see C14) against boxes around their steps, corners and far ends"""
    from .c14 import long_family
    boxes = []
    for i in (0, 15, 31, 32, 33, 63, 64, 65, 127, 128, 256, 514):
        x, y = 2 * i + 2, 3 * i
        boxes += [(x - 1, y - 1, x + 1, y + 1), (x + 1, y - 2, x + 2, y - 1), (x - 2, y + 1, x - 1, y + 2), (x - 3, y - 3, x + 4, y + 5),
                  (x, y, x + 1, y + 3), (-1, y + 1, 1, y + 2)]
    boxes += [(-5, -5, 2000, 2000), (5000, 0, 5003, 4), (-9, -9, -1, -1), (1, 1, 2, 2)]
    out = []
    for kind in ("line", "ring", "multiline", "polygon", "multipolygon"):
        fam = long_family(kind)
        for c in range(0, len(fam), 8):
            out.append((kind, fam[c:c + 8] + [None], boxes, "valid"))
    return out


def plan(ctx):
    """list of (kind, elems, boxes, scalar_stride)"""
    T = ctx.thorough
    G = 3 if T else 2
    units = []
    pos = L.all_boxes(G)
    deg = L.all_boxes(G, degenerate=True)
    big = L.all_boxes(5)
    for kind in ("point", "multipoint", "line", "ring", "multiline", "polygon"):
        fam = list(L.elements_for(kind, G, T))
        boxes = deg if kind in ("point", "multipoint") else pos
        for c in range(0, len(fam), CHUNK):
            el = fam[c:c + CHUNK]
            # missing and empty elements are part of every array alphabet
            el = el[:1] + [None] + el[1:] + [()] + [None]
            units.append((kind, el, boxes, 8 if T else 1))
    if T:
        # G=2 with 5-vertex polygons/rings (every rotation, both directions)
        pos2 = L.all_boxes(2)
        for kind in ("ring", "polygon"):
            fam = list(L.elements_for(kind, 2, True))
            for c in range(0, len(fam), CHUNK):
                el = fam[c:c + CHUNK]
                units.append((kind, [None] + el + [()], pos2, 4))
    for kind in ("polygon", "multipolygon"):
        fam = list(L.elements_big(kind, T))
        for c in range(0, len(fam), 32):
            el = fam[c:c + 32]
            el = el[:1] + [None] + el[1:] + [()]
            units.append((kind, el, big, 16 if T else 4))
    return units


def warm():
    for kind in O.KINDS:
        fam = L.elements_for(kind, 2)[:3] if kind != "multipolygon" else L.elements_big(kind)[:2]
        for st in L.SUBTYPES:
            a = L.make_array(kind, list(fam) + [None], st)
            a.intersects_bounds((0, 0, 1, 1))
            a.intersects_bounds((0, 0, 1, 1), np.array([0]))
            a[0].intersects_bounds((0, 0, 1, 1))


def run(ctx):
    warm()
    units = plan(ctx)
    rot = ctx.seed % max(1, len(units))

    hu = huge_units()
    if not ctx.thorough:
        hu = hu[ctx.seed % 2::2] if len(hu) > 8 else hu
    hu = hu + many_vertex_units()
    nu = len(units)

    def work(col, i):
        if i >= nu:
            kind, el, boxes = hu[i - nu][:3]
            if len(hu[i - nu]) > 3:
                check_chunk(col, kind, el, boxes, ("float64", "int32", "int16"), ctx.seed, 4, chunk_id=i, eps=False, T_fixed=(1, 0, 0))
                return
            if kind == "multipolygon":
                # parts of a multipolygon must not overlap: keep pairs whose triangles are disjoint by construction? they are
                # arbitrary here, so only the segment / vertex behaviour is comparable -> use them as separate polygons instead
                kind, el = "polygon", [p for mp in el for p in mp]
            check_chunk(col, kind, el, boxes, ("float64", "int64", "int32"), ctx.seed, 16, chunk_id=i, eps=False,
                        T_fixed=(1, 0, 0))
            return
        j = (i + rot) % len(units)
        kind, el, boxes, stride = units[j]
        check_chunk(col, kind, el, boxes, L.SUBTYPES, ctx.seed, stride, chunk_id=j)
        if kind in ("point", "multipoint") and _all_even(el):
            check_chunk(col, kind, el, boxes, ["float32"], ctx.seed, stride, chunk_id=j, T_fixed=FAR32)

    core.pmap(ctx, work, len(units) + len(hu))
    ctx.rule = ("every element of the lattice families (points, multipoints <=3, all vertex sequences for "
                "lines, every simple lattice polygon in every rotation/direction, holes family, multi-part "
                "pools, plus missing and empty) x every lattice box (degenerate too for point kinds) x 4 "
                "corner orders x 5 subtypes, whole-array form; sliced array, inds vectors, GeoSeries and "
                "scalar form per box on one rotating corner order; arrays with a built spatial index; boxes shrunk / grown by 2^-10 "
                "lattice units; a family of 2^26-long segments / triangles passing within one unit of small boxes at the origin "
                "(float64, int64, int32). distinct_nontrivial counts (element, box) "
                "pairs whose bbox overlaps the box without being contained in it.")
    ctx.coverage_extra["units"] = len(units)
    ctx.coverage_extra["elements"] = sum(len(u[1]) for u in units)
    ctx.coverage_extra["bounds"] = {"G": 3 if ctx.thorough else 2, "line_vertices": 4 if ctx.thorough else 3,
                                    "polygon_vertices": "4 (G=3), 5 (G=2)" if ctx.thorough else 4,
                                    "scalar_form_box_stride": "8/4/16 on thorough families" if ctx.thorough else "1 (4 on holes family)"}
    ctx.assumptions = ["polygons valid (holes strictly inside, opposite winding)", "no NaN coordinates",
                       "positive-area boxes for line/polygon kinds", "lattice coordinates (exact arithmetic)"]


def replay(ctx, case):
    col = core.Collector()
    elems = [telem(e) for e in case["elems"]]
    box = tuple(case["box"]) if case.get("box") else None
    boxes = [box] if box else L.all_boxes(2)[:5]
    st = case.get("subtype", "float64")
    # replay with the recorded transform: find the seed/salt giving it is unnecessary; run all subtypes
    import vf.lattice as LL
    T = tuple(case.get("T", (1, 0, 0)))
    old = LL.transform_for
    LL.transform_for = lambda subtype, seed, salt=0: T
    try:
        check_chunk(col, case["kind"], elems, boxes, [st], 0, 1, 0)
    finally:
        LL.transform_for = old
    return col.violations
