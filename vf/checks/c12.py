"""C12 -- stored partition bounds are the true extents; pruning never loses a row.

E1: frames with two geometry columns x 1..16 partitions x writer in {DaskGeoDataFrame.to_parquet,
pack_partitions_to_parquet} x geometry= choice x {single path, list, glob of two datasets} x boxes
(generic, exactly touching each partition extent, reversed corners, disjoint from everything).
Oracle: extents recomputed from the coordinates of the rows loaded in each partition; the
b'spatialpandas' JSON of _common_metadata parsed independently; overlap of recorded extents.
"""
import json
import math
import os
import shutil

import numpy as np

from .. import core
from .. import lattice as L

LEVEL = "exploration"
RETRY = dict(wait_exponential_multiplier=1, wait_exponential_max=1, stop_max_attempt_number=3)     # the keys of the library's own default, 1 ms waits
NAN = float("nan")


def sq(x0, y0, x1, y1):
    return ((x0, y0), (x1, y0), (x1, y1), (x0, y1), (x0, y0))


def make_frame(n=16, shift=0, scale=1, reverse=False, half=False):
    import pandas as pd
    from spatialpandas import GeoDataFrame
    order = list(range(n))[::-1] if reverse else list(range(n))
    pts = [((i + shift) / scale, ((i * 7) % 16) / scale) for i in order]
    polys = [(tuple((x / scale, y / scale) for x, y in sq(2 * ((i * 5) % 16) + shift, i, 2 * ((i * 5) % 16) + 1 + shift, i + 2)),) for i in order]
    pts[3] = None
    polys[5] = None
    if n > 6:
        polys[6] = ()
    if n > 9:
        pts[8] = None
        pts[9] = None           # with 8 or 16 partitions a whole partition of missing points
    if half and n > 12:
        pts[12] = (500.0, NAN)  # finite on one axis only: no box, but its x still belongs to the extent of its partition
    return GeoDataFrame({
        "polys": L.make_array("polygon", polys, "float64"),
        "val": np.arange(n) + 1000 * shift,
        "pts": L.make_array("point", pts, "float64"),
    }, index=pd.Index(np.arange(n) + 100 + 1000 * shift, name="idx"), geometry="pts")


def flat_coords(v, out):
    if v is None:
        return
    if isinstance(v, (bytes, bytearray)):
        a = np.frombuffer(v, dtype="float64")
        out.extend(a.tolist())
        return
    for x in v:
        if isinstance(x, (list, tuple)):
            flat_coords(x, out)
        else:
            out.append(float(x))


def extent_of(series):
    """exact total bounds of a geometry column from its raw stored coordinates"""
    xs, ys = [], []
    for v in series.array.data.to_pylist():
        c = []
        flat_coords(v, c)
        xs += [a for a in c[0::2] if math.isfinite(a)]
        ys += [a for a in c[1::2] if math.isfinite(a)]
    return (min(xs) if xs else NAN, min(ys) if ys else NAN, max(xs) if xs else NAN, max(ys) if ys else NAN)


def same(a, b):
    return all((x == y) or (x != x and y != y) for x, y in zip(a, b)) and len(a) == len(b)


def overlaps(ext, box):
    x0, y0, x1, y1 = box
    if x0 > x1:
        x0, x1 = x1, x0
    if y0 > y1:
        y0, y1 = y1, y0
    return not (ext[2] < x0 or ext[3] < y0 or ext[0] > x1 or ext[1] > y1)


def write_dataset(P, path, writer, nparts):
    import dask.dataframe as dd
    ddf = dd.from_pandas(P, npartitions=min(nparts, len(P)))
    if writer == "to_parquet":
        ddf.to_parquet(path)
    elif writer == "to_parquet_filtered":
        # history: partition bounds cached on the full frame, then rows filtered away, then written
        ddf.partition_sindex
        _ = ddf.geometry.total_bounds, ddf["polys"].partition_bounds
        keep = P["val"].tolist()[1::2] + P["val"].tolist()[:2]
        ddf[ddf["val"].isin(keep)].to_parquet(path)
    elif writer == "to_parquet_after_sindex":
        # history: only the ACTIVE column's partition bounds are cached (a spatial query was made) before the frame is written
        if nparts % 2:
            # ... and the active column is the FIRST geometry column (the cached column precedes an uncached one)
            ddf = dd.from_pandas(P.set_geometry("polys"), npartitions=min(nparts, len(P)))
        ddf.partition_sindex
        ddf.cx[0:1, 0:1]
        ddf.to_parquet(path)
    elif writer == "to_parquet_built_sindex":
        # history: every partition carries a built spatial index when the frame is written
        ddf.build_sindex().to_parquet(path)
    elif writer == "cx_partitions":
        # history: whole partitions selected with cx_partitions (a scattered set: rows with y in [0.5, 3.5] are rows 5, 7, 14),
        # and the selection written
        ddf.cx_partitions[:, 0.5 / scale_of(P):3.5 / scale_of(P)].to_parquet(path)
    else:
        ddf.pack_partitions_to_parquet(path, npartitions=nparts, p=8, _retry_args=RETRY)


def scale_of(P):
    return 3 if float(P["pts"].array.total_bounds[3]) < 6 else 1


def common_metadata_bounds(path):
    import pyarrow.parquet as pq
    md = pq.read_metadata(os.path.join(path, "_common_metadata")).metadata
    sp = json.loads(md[b"spatialpandas"].decode())
    out = {}
    for colname, table in sp["partition_bounds"].items():
        n = len(table["x0"])
        out[colname] = [tuple(float("nan") if table[k][str(i)] is None else float(table[k][str(i)]) for k in ("x0", "y0", "x1", "y1"))
                        for i in range(n)]
    return out


def boxes_for(extents):
    bxs = []
    ends = [-1, 3, 7, 11, 17]
    iv = [(a, b) for a in ends for b in ends if a < b]
    bxs += [(x0, y0, x1, y1) for (x0, x1) in iv[::2] for (y0, y1) in iv[1::2]]
    for e in extents:
        if e[0] != e[0]:
            continue
        bxs.append((e[2], e[1], e[2] + 2, e[3]))          # touches the right edge exactly
        bxs.append((e[2] + 0.5, e[1], e[2] + 2, e[3]))    # just misses it
        bxs.append((e[0] - 2, e[3], e[0], e[3] + 1))      # touches the top-left corner
        bxs.append((e[2] + 2, e[3], e[2], e[1]))          # reversed corners
    bxs.append((100, 100, 101, 101))
    bxs.append((-50, -50, 60, 60))
    seen, out = set(), []
    for b in bxs:
        if b not in seen:
            seen.add(b)
            out.append(b)
    return out


def _slashed(arg):
    if isinstance(arg, (list, tuple)):
        return [_slashed(a) for a in arg]
    if isinstance(arg, str) and not any(c in arg for c in "*?[") and os.path.isdir(arg):
        return arg + "/"
    return arg


def check_dataset(col, scratch, writer, nparts, multi, thorough, seed, variant="int"):
    from spatialpandas.io import read_parquet_dask
    S = "synchronous"
    base = os.path.join(scratch, f"c12-{os.getpid()}")
    shutil.rmtree(base, ignore_errors=True)
    os.makedirs(base)
    case0 = {"writer": writer, "npartitions": nparts, "multi": multi, "variant": variant}
    # variant "thirds": coordinates k/3 (no short decimal expansion); "rewrite": the dataset replaces, at the same path and in
    # the same process, one with the same schema, partition count and equally long metadata that was already read
    P = make_frame(16, scale=3 if variant == "thirds" else 1, shift=10 if variant == "rewrite" else 0, half=(variant == "halffinite"))
    if variant == "rewrite":
        from spatialpandas.io import read_parquet_dask as _rpd
        prev_path = os.path.join(base, "ds.parq")
        write_dataset(make_frame(16, shift=10, reverse=True), prev_path, writer, nparts)
        _ = _rpd(prev_path)._partition_bounds
        shutil.rmtree(prev_path)
    try:
        if multi == "single":
            paths = [os.path.join(base, "ds.parq")]
            write_dataset(P, paths[0], writer, nparts)
            arg = paths[0]
        else:
            P2 = make_frame(6, shift=1)
            paths = [os.path.join(base, "d10.parq"), os.path.join(base, "d9.parq")]
            write_dataset(P, paths[0], writer, nparts)
            write_dataset(P2, paths[1], writer, max(1, nparts // 3))
            arg = paths if multi == "list" else os.path.join(base, "d*.parq")
            if multi == "list_reversed":
                paths = paths[::-1]
                arg = paths
            if multi == "list_repeated":
                paths = [paths[0], paths[1], paths[0]]
                arg = paths
            if multi == "list_with_glob":
                arg = [paths[0], os.path.join(base, "d9*.parq")]      # a plain path, then a pattern
            if multi == "glob_then_path":
                arg = [os.path.join(base, "d1*.parq"), paths[1]]
    except Exception as ex:
        col.violation("write.raises", case0, f"{type(ex).__name__}: {str(ex)[:250]}")
        return
    arg_plain = arg
    for geometry in (None, "pts"):
        active = geometry or "polys"            # default: first geometry column
        case = dict(case0, geometry=geometry)
        # the second reading names every directory with a trailing slash (patterns stay as they are)
        arg = _slashed(arg_plain) if geometry else arg_plain
        case["path_spelling"] = "trailing_slash" if geometry else "plain"
        col.count("evaluations")
        try:
            r = read_parquet_dask(arg, geometry=geometry)
            parts = [d.compute(scheduler=S) for d in r.to_delayed()]
        except Exception as ex:
            col.violation("read.raises", case, f"{type(ex).__name__}: {str(ex)[:250]}")
            continue
        nload = len(parts)
        if nload > 10:
            col.count("nontrivial")
        true_ext = {c: [extent_of(p[c]) for p in parts] for c in ("polys", "pts")}
        stored = getattr(r, "_partition_bounds", None) or {}
        # ---- recorded bounds == true extents, partition by partition in load order, for every column
        for c in ("polys", "pts"):
            col.count("evaluations")
            if c not in stored:
                col.violation("bounds.missing_column", case, f"no partition bounds for column {c}: {list(stored)}")
                continue
            rec = [tuple(float(v) for v in row) for row in stored[c][["x0", "y0", "x1", "y1"]].values]
            if len(rec) != nload or not all(same(a, b) for a, b in zip(rec, true_ext[c])):
                bad = [i for i, (a, b) in enumerate(zip(rec, true_ext[c])) if not same(a, b)]
                col.violation("bounds.wrong", dict(case, column=c),
                              f"column {c}: recorded bounds differ from the extents of the loaded partitions at {bad[:5]}: "
                              f"recorded {[rec[i] for i in bad[:2]]} true {[true_ext[c][i] for i in bad[:2]]} (nparts={nload})",
                              column=c, nparts=nload)
        # ---- the series view reports the same
        try:
            pb = r.geometry.partition_bounds
            if not all(same(tuple(float(v) for v in row), b) for row, b in zip(pb[["x0", "y0", "x1", "y1"]].values, true_ext[active])) or len(pb) != nload:
                col.violation("bounds.series", case, f"DaskGeoSeries.partition_bounds of {active} differ from true extents")
        except Exception as ex:
            col.violation("bounds.series.raises", case, f"{type(ex).__name__}: {str(ex)[:200]}")
        # ---- _common_metadata parsed independently (single dataset)
        if multi == "single":
            try:
                cm = common_metadata_bounds(paths[0])
                for c in ("polys", "pts"):
                    if len(cm[c]) != nload or not all(same(a, b) for a, b in zip(cm[c], true_ext[c])):
                        col.violation("bounds.common_metadata", dict(case, column=c),
                                      f"_common_metadata bounds of {c}: {cm[c][:3]}.. vs true {true_ext[c][:3]}..", column=c)
            except Exception as ex:
                col.violation("common_metadata.raises", case, f"{type(ex).__name__}: {str(ex)[:200]}")
        # ---- pruning
        vals = [p["val"].tolist() for p in parts]
        allrows = [v for p in vals for v in p]
        if writer in ("to_parquet", "pack"):
            # every row of every dataset named, once per mention
            want_rows = P["val"].tolist() if multi == "single" else \
                (P["val"].tolist() * (2 if multi == "list_repeated" else 1) + P2["val"].tolist())
            if sorted(allrows) != sorted(want_rows):
                col.violation("read.rows", case, f"{multi}: loaded rows {sorted(allrows)[:12]}.. ({len(allrows)}) but the datasets named hold "
                              f"{len(want_rows)} rows")
        import pandas as pd
        from spatialpandas import GeoDataFrame
        whole = GeoDataFrame(pd.concat(parts)).set_geometry(active) if parts else None
        bxs = boxes_for(true_ext[active])
        if not thorough:
            bxs = bxs[(seed + nparts) % 2::2] + bxs[-2:]
        for b in bxs:
            col.count("evaluations")
            cb = dict(case, bounds=list(b))
            try:
                rb = read_parquet_dask(arg, geometry=geometry, bounds=b)
                got_parts = [d.compute(scheduler=S)["val"].tolist() for d in rb.to_delayed()]
            except Exception as ex:
                col.violation("pruned_read.raises", cb, f"bounds {b}: {type(ex).__name__}: {str(ex)[:200]}")
                continue
            ext = true_ext[active]
            must = [i for i in range(nload) if ext[i][0] == ext[i][0] and overlaps(ext[i], b)]
            may = [i for i in range(nload) if ext[i][0] != ext[i][0]]           # NaN extent: don't care
            # match the partitions that came back against the dataset's partitions, in order
            # (empty partitions are interchangeable: greedy subsequence match)
            kept, ok, pos = [], True, 0
            if not (len(got_parts) == 1 and got_parts[0] == [] and not must):
                for g in got_parts:
                    while pos < nload and vals[pos] != g:
                        pos += 1
                    if pos >= nload:
                        ok = False
                        break
                    kept.append(pos)
                    pos += 1
            if not ok or [i for i in kept if i not in may] != must:
                col.violation("pruning.partitions", cb,
                              f"bounds {b} geometry={active}: kept partitions {kept if ok else got_parts}, those whose recorded extent overlaps: {must} "
                              f"(extents {[ext[i] for i in must[:3]]})", nparts=nload)
                continue
            if 0 < len(must) < nload - len(may):
                col.count("nontrivial")
            # no intersecting row lost
            x0, y0, x1, y1 = b
            need = whole.cx[min(x0, x1):max(x0, x1), min(y0, y1):max(y0, y1)]["val"].tolist()
            have = [v for g in got_parts for v in g]
            if not set(need) <= set(have):
                col.violation("pruning.lost_rows", cb, f"bounds {b}: rows {need} intersect the box but only {have} were kept")
            # reported bounds afterwards are those of the kept partitions, for every column
            sb = getattr(rb, "_partition_bounds", None) or {}
            if kept:
                for c in ("polys", "pts"):
                    if c not in sb:
                        col.violation("pruning.bounds_missing", dict(cb, column=c), f"no bounds for {c} after pruning")
                        continue
                    rec = [tuple(float(v) for v in row) for row in sb[c][["x0", "y0", "x1", "y1"]].values]
                    want = [true_ext[c][i] for i in kept]
                    if len(rec) != len(want) or not all(same(a, w) for a, w in zip(rec, want)):
                        col.violation("pruning.bounds_after", dict(cb, column=c),
                                      f"bounds {b}: bounds of {c} after pruning {rec[:3]} expected {want[:3]}", column=c)
                    if list(sb[c].index) != list(range(len(rec))):
                        col.violation("pruning.bounds_index", dict(cb, column=c), f"bounds index {list(sb[c].index)}")
        col.outcome(f"{writer}:{multi}:nload={min(nload, 17)}")
    shutil.rmtree(base, ignore_errors=True)
    col.sample(dict(case0, note="16-row frame with missing rows; boxes incl. ones touching a partition extent exactly"))


def check_mixed(col, scratch, order):
    """a list naming one dataset that carries stored partition bounds and one that does not (written by the pandas writer):
    nothing recorded may be trusted for the second; extents, partition bounds and pruning must still cover every row"""
    import pandas as pd
    from spatialpandas import GeoDataFrame
    from spatialpandas.io import read_parquet_dask
    S = "synchronous"
    base = os.path.join(scratch, f"c12m-{os.getpid()}")
    shutil.rmtree(base, ignore_errors=True)
    os.makedirs(base)
    A, B = make_frame(16), make_frame(6, shift=100)
    pa_, pb_ = os.path.join(base, "a.parq"), os.path.join(base, "b.parq")
    write_dataset(A, pa_, "to_parquet", 3)
    B.to_parquet(pb_)                                  # one file, no _common_metadata
    arg = [pa_, pb_] if order == "with_first" else [pb_, pa_]
    for geometry in (None, "pts"):
        active = geometry or "polys"
        case = {"writer": "mixed", "npartitions": 3, "multi": order, "variant": "mixed", "geometry": geometry}
        col.count("evaluations", 4)
        try:
            r = read_parquet_dask(arg, geometry=geometry)
            parts = [d.compute(scheduler=S) for d in r.to_delayed()]
            whole = GeoDataFrame(pd.concat(parts)).set_geometry(active)
            ext = [extent_of(p[active]) for p in parts]
            tb = tuple(float(v) for v in r[active].total_bounds)
            want_tb = tuple(float(v) for v in whole[active].array.total_bounds)
            if not same(tb, want_tb):
                col.violation("mixed.total_bounds", case, f"total_bounds {tb} but the rows extend over {want_tb}")
            pbd = r[active].partition_bounds
            rec = [tuple(float(v) for v in row) for row in pbd[["x0", "y0", "x1", "y1"]].values]
            if len(rec) != len(ext) or not all(same(a, b) for a, b in zip(rec, ext)):
                col.violation("mixed.partition_bounds", case, f"partition_bounds {rec} but the partitions extend over {ext}")
            if sorted(whole["val"].tolist()) != sorted(A["val"].tolist() + B["val"].tolist()):
                col.violation("mixed.rows", case, f"rows {sorted(whole['val'].tolist())}")
            for b in ((99.0, -1.0, 103.5, 20.0), (-1.0, -1.0, 8.5, 9.5), (0.0, 0.0, 140.0, 40.0), (50.0, 0.0, 60.0, 5.0)):
                col.count("evaluations", 2)
                need = whole.cx[b[0]:b[2], b[1]:b[3]]["val"].tolist()
                got = r.cx[b[0]:b[2], b[1]:b[3]].compute(scheduler=S)["val"].tolist()
                if sorted(got) != sorted(need):
                    col.violation("mixed.cx", dict(case, bounds=list(b)), f"cx {b}: rows {sorted(got)} expected {sorted(need)}")
                have = read_parquet_dask(arg, geometry=geometry, bounds=b).compute(scheduler=S)["val"].tolist()
                if not set(need) <= set(have):
                    col.violation("mixed.pruning.lost_rows", dict(case, bounds=list(b)), f"bounds {b}: rows {need} intersect the box, kept {have}")
        except Exception as ex:
            col.violation("mixed.raises", case, f"{type(ex).__name__}: {str(ex)[:250]}")
    shutil.rmtree(base, ignore_errors=True)


def check_partial(col, scratch, writer):
    """some files of a dataset named directly (one part file, a glob matching a few, all of them by glob, two in another
    order): what is exposed must describe the partitions that were loaded"""
    import pandas as pd
    from spatialpandas import GeoDataFrame
    from spatialpandas.io import read_parquet_dask
    S = "synchronous"
    base = os.path.join(scratch, f"c12p-{os.getpid()}")
    shutil.rmtree(base, ignore_errors=True)
    os.makedirs(base)
    ds = os.path.join(base, "ds.parq")
    write_dataset(make_frame(16), ds, writer, 12)
    args = {"one_file": os.path.join(ds, "part.1.parquet"), "glob_some": os.path.join(ds, "part.[23].parquet"),
            "glob_all": os.path.join(ds, "part.*.parquet"), "glob_two_digit": os.path.join(ds, "part.1?.parquet"),
            "list_other_order": [os.path.join(ds, "part.3.parquet"), os.path.join(ds, "part.0.parquet")]}
    if writer == "to_parquet":
        # a dataset that grew: the second half of the rows appended to it by a later to_parquet(append=True)
        import dask.dataframe as dd
        P = make_frame(16)
        grown = os.path.join(base, "grown.parq")
        dd.from_pandas(P.iloc[:8], npartitions=3).to_parquet(grown)
        dd.from_pandas(P.iloc[8:], npartitions=2).to_parquet(grown, append=True)
        args["appended"] = grown
    for tag, arg in args.items():
        for geometry in (None, "pts"):
            active = geometry or "polys"
            case = {"writer": "partial:" + writer, "npartitions": 12, "multi": tag, "variant": "partial", "geometry": geometry}
            col.count("evaluations", 3)
            try:
                r = read_parquet_dask(arg, geometry=geometry)
                parts = [d.compute(scheduler=S) for d in r.to_delayed()]
                whole = GeoDataFrame(pd.concat(parts)).set_geometry(active)
                ext = [extent_of(p[active]) for p in parts]
                tb = tuple(float(v) for v in r[active].total_bounds)
                want_tb = tuple(float(v) for v in whole[active].array.total_bounds)
                if tag == "appended" and sorted(whole["val"].tolist()) != sorted(make_frame(16)["val"].tolist()):
                    col.violation("partial.rows", case, f"appended dataset reads back rows {sorted(whole['val'].tolist())}")
                if not same(tb, want_tb):
                    col.violation("partial.total_bounds", case, f"{tag}: total_bounds {tb} but the loaded rows extend over {want_tb}")
                pbd = r[active].partition_bounds
                rec = [tuple(float(v) for v in row) for row in pbd[["x0", "y0", "x1", "y1"]].values]
                if len(rec) != len(ext) or not all(same(a, b) for a, b in zip(rec, ext)):
                    col.violation("partial.partition_bounds", case, f"{tag}: partition_bounds {rec[:4]} ({len(rec)} rows) but the {len(ext)} loaded "
                                  f"partitions extend over {ext[:4]}")
                stored = getattr(r, "_partition_bounds", None) or {}
                for c, bdf in stored.items():
                    if len(bdf) != len(parts):
                        col.violation("partial.stored_bounds", dict(case, column=c), f"{tag}: {len(bdf)} stored bounds rows for {len(parts)} partitions")
                for b in ((-1.0, -1.0, 40.0, 4.5), (2.5, 0.0, 12.5, 20.0), (100.0, 100.0, 101.0, 101.0)):
                    col.count("evaluations", 2)
                    need = whole.cx[b[0]:b[2], b[1]:b[3]]["val"].tolist()
                    got = r.cx[b[0]:b[2], b[1]:b[3]].compute(scheduler=S)["val"].tolist()
                    if sorted(got) != sorted(need):
                        col.violation("partial.cx", dict(case, bounds=list(b)), f"{tag}: cx {b} rows {sorted(got)} expected {sorted(need)}")
                    have = read_parquet_dask(arg, geometry=geometry, bounds=b).compute(scheduler=S)["val"].tolist()
                    if not set(need) <= set(have):
                        col.violation("partial.pruning.lost_rows", dict(case, bounds=list(b)), f"{tag}: bounds {b}: rows {need} intersect the box, kept {have}")
            except Exception as ex:
                col.violation("partial.raises", case, f"{tag}: {type(ex).__name__}: {str(ex)[:250]}")
    shutil.rmtree(base, ignore_errors=True)


def run(ctx):
    scratch = ctx.scratch()
    units = []
    units.append(("partial", 12, "to_parquet"))
    units.append(("partial", 12, "pack"))
    units.append(("mixed", 3, "with_first"))
    units.append(("mixed", 3, "without_first"))
    for writer in ("to_parquet", "pack", "to_parquet_filtered"):
        for nparts in (range(1, 17) if writer != "to_parquet_filtered" else (1, 2, 3, 5, 8, 12)):
            multis = ("single", "list", "glob", "list_reversed") if ctx.thorough else \
                (("single",) + ((("list", "glob", "list_reversed")[(nparts + ctx.seed) % 3],) if nparts in (2, 5, 11, 12, 16) else ()))
            for m in multis:
                units.append((writer, nparts, m))
    for writer in ("to_parquet", "to_parquet_built_sindex", "pack"):
        for nparts in (3, 12):
            units.append((writer, nparts, "single", "halffinite"))
    for nparts in (3, 4, 11, 12):
        units.append(("to_parquet_after_sindex", nparts, "single"))
        units.append(("to_parquet_built_sindex", nparts, "single"))
    for nparts in (5, 9, 12, 16):
        units.append(("cx_partitions", nparts, "single"))
    units.append(("cx_partitions", 16, "list"))
    for writer in ("to_parquet", "pack"):
        for nparts in (3, 8, 12):
            units.append((writer, nparts, "single", "thirds"))
            units.append((writer, nparts, "single", "rewrite"))
        units.append((writer, 5, "list_repeated", "int"))
        units.append((writer, 5, "list_with_glob", "int"))
        units.append((writer, 12, "glob_then_path", "int"))
    P = make_frame(8)
    P.cx[0:1, 0:1]
    P["pts"].hilbert_distance(p=3)

    def work(col, i):
        w, n, m = units[i][:3]
        if w == "mixed":
            check_mixed(col, scratch, m)
            return
        if w == "partial":
            check_partial(col, scratch, m)
            return
        check_dataset(col, scratch, w, n, m, ctx.thorough, ctx.seed, variant=units[i][3] if len(units[i]) > 3 else "int")

    units.sort(key=lambda u: -u[1])
    core.pmap(ctx, work, len(units), timeout=7200)
    ctx.coverage_extra["datasets"] = len(units)
    ctx.rule = ("16-row frame (two geometry columns, missing / empty rows, one all-missing partition) x 1..16 partitions x "
                "both writers x geometry in {default, pts} x {single, list, glob, reversed list}; boxes: generic lattice boxes "
                "plus, per partition extent, one touching its right edge exactly, one just missing it, one touching a corner, "
                "one with reversed corners, one disjoint from everything and one covering everything. Non-trivial = datasets "
                "with more than ten partitions and prunings that keep a proper non-empty subset.")
    ctx.assumptions = ["partitions whose recorded extent is NaN are don't-care for the pruning clause",
                       "true extents are recomputed from the raw stored coordinates of the loaded partitions"]


def replay(ctx, case):
    col = core.Collector()
    if case.get("writer") == "mixed":
        check_mixed(col, ctx.scratch(), case["multi"])
        return col.violations
    if str(case.get("writer", "")).startswith("partial:"):
        check_partial(col, ctx.scratch(), case["writer"].split(":", 1)[1])
        return col.violations
    check_dataset(col, ctx.scratch(), case["writer"], case["npartitions"], case["multi"], True, 0, variant=case.get("variant", "int"))
    return col.violations
