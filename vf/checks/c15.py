"""C15 -- oriented() normalises ring direction without changing the shape.

E1: every assignment of {as listed, reversed} to every ring (2^rings) of every structure
(polygons with 0..2 holes, degenerate rings, multipolygons of 1..2 parts), arrays of 1..3
elements with missing/empty elements at every position, the array and its [1:] / [:-1] slices,
five subtypes.  Post-conditions of the statement are checked directly; intersection results are
compared on every lattice box / point for inputs whose holes are wound opposite to their shell.
"""
import itertools

import numpy as np

from .. import core
from .. import lattice as L
from .. import oracle as O
from .c01 import jelem, telem

LEVEL = "exploration"

S = ((0, 0), (10, 0), (10, 10), (0, 10), (0, 0))          # shell, ccw as listed
TRI = ((0, 0), (10, 0), (0, 10), (0, 0))
H1 = ((2, 2), (4, 2), (4, 4), (2, 4), (2, 2))             # holes strictly inside S (and TRI for H1)
H2 = ((6, 6), (8, 6), (8, 8), (6, 8), (6, 6))
Z3 = ((2, 6), (4, 6), (2, 6))                              # zero area, 3 entries (palindrome)
Z4 = ((2, 6), (4, 6), (3, 6), (2, 6))                      # zero area, non-palindromic
Z5 = ((6, 2), (8, 2), (8, 4), (8, 2), (6, 2))              # zero area spike, palindrome
V2 = ((6, 2), (8, 2))                                      # two vertices, open
V1 = ((5, 5),)
S_OPEN = S[:-1]                                            # rings stored WITHOUT the repeated closing vertex
H1_OPEN = H1[:-1]


def rev(r):
    return tuple(reversed(r))


def structures(thorough):
    """list of (rings tuple, valid_flags) -- polygon ring structures before direction assignment"""
    shells = [S, TRI]
    holes = [H1, H2, Z4, Z3, V2] + ([Z5, V1] if thorough else [])
    out = []
    for sh in shells:
        out.append((sh,))
        for h in holes:
            if sh is TRI and h is H2:
                continue
            out.append((sh, h))
        for ha, hb in itertools.permutations(holes[:4] if not thorough else holes, 2):
            if sh is TRI and (ha is H2 or hb is H2):
                continue
            out.append((sh, ha, hb))
    # rings without the closing vertex (only the vertex sequence / structure clauses apply to them)
    out.append((S_OPEN,))
    out.append((S_OPEN, H1_OPEN))
    out.append((S, H1_OPEN))
    out.append((S_OPEN, H1, H2))
    # degenerate shells
    for sh in (Z4, Z3, V2):
        out.append((sh,))
        out.append((sh, H1))
    return out


def directed(struct):
    """every assignment of direction to every ring"""
    for bits in itertools.product((0, 1), repeat=len(struct)):
        yield tuple(rev(r) if b else r for r, b in zip(struct, bits))


def is_closed(poly):
    return all(len(r) < 3 or r[0] == r[-1] for r in poly)


def is_valid_input(poly):
    """shell of non-zero area, every hole of non-zero area wound opposite to the shell (holes are
    inside and disjoint by construction)"""
    if len(poly) == 0:
        return True
    if not is_closed(poly):
        return False
    sa = O.signed_area2_ring(poly[0]) if len(poly[0]) >= 3 else 0
    if sa == 0:
        return False
    for h in poly[1:]:
        ha = O.signed_area2_ring(h) if len(h) >= 3 else 0
        if ha == 0 or (ha > 0) == (sa > 0):
            return False
    return True


def polygon_family(thorough):
    out = []
    for st in structures(thorough):
        out.extend(directed(st))
    return out


def multipolygon_family(thorough):
    A = ((0, 0), (4, 0), (4, 4), (0, 4), (0, 0))
    B = ((6, 6), (10, 6), (10, 10), (6, 10), (6, 6))
    BH = ((7, 7), (8, 7), (8, 8), (7, 8), (7, 7))
    parts = [((A,), (B,)), ((A,), (B, BH)), ((B, BH),), ((A,), (Z4,)), ((A, Z4), (B,))]
    out = []
    for mp in parts:
        rings = [r for poly in mp for r in poly]
        for bits in itertools.product((0, 1), repeat=len(rings)):
            it = iter(bits)
            out.append(tuple(tuple(rev(r) if next(it) else r for r in poly) for poly in mp))
    return out


def rings_list(kind, e):
    return O.rings_of(kind, e)


def shell_flags(kind, e):
    if kind == "polygon":
        return [i == 0 for i in range(len(e))]
    return [i == 0 for poly in e for i in range(len(poly))]


def check_array(col, kind, st, T, elems, boxes, qpts, deep, pre=None, arr_override=None, label=None):
    """elems: lattice elements (None / () allowed); pre: elements stored BEFORE them in the same buffers (the array under
    test is then the slice [len(pre):] of a longer array)"""
    case = {"kind": kind, "subtype": st, "T": list(T), "elems": [jelem(e) for e in elems], "pre": [jelem(e) for e in (pre or [])]}
    arr0 = L.make_array(kind, list(pre or []) + list(elems), st, T)[len(pre or []):] if arr_override is None else arr_override
    if label:
        case["history"] = label
    views = [("full", arr0, 0, len(elems))]
    if len(elems) >= 2:
        views += [("slice[1:]", arr0[1:], 1, len(elems)), ("slice[:-1]", arr0[:-1], 0, len(elems) - 1)]
    for vname, arr, a, b in views:
        c = dict(case, view=vname)
        col.count("evaluations")
        before = arr.to_pylist() if hasattr(arr, "to_pylist") else arr.data.to_pylist()
        bufs_before = [None if x is None else bytes(x) for x in arr.data.buffers()]
        try:
            res = arr.oriented()
        except Exception as ex:
            col.violation(f"{kind}.oriented.raises", c, f"{type(ex).__name__}: {ex}",
                          trailing_inert=(elems[b - 1] in (None, ())))
            continue
        bufs_after = [None if x is None else bytes(x) for x in arr.data.buffers()]
        if bufs_before != bufs_after:
            col.violation(f"{kind}.input_modified", c, "input buffers changed by oriented()")
        if type(res) is not type(arr) or len(res) != b - a or res.dtype != arr.dtype:
            col.violation(f"{kind}.result_type", c, f"type/len/dtype changed: {type(res).__name__} {len(res)} {res.dtype}")
            continue
        after = res.data.to_pylist()
        for i in range(a, b):
            e = elems[i]
            got = after[i - a]
            orig = before[i - a]
            if e is None:
                if got is not None:
                    col.violation(f"{kind}.missing_lost", dict(c, index=i), f"missing element became {got}")
                continue
            if got is None:
                col.violation(f"{kind}.became_missing", dict(c, index=i), f"element {jelem(e)} became missing")
                continue
            # structure: same parts / rings; each ring same sequence or reversed
            if kind == "polygon":
                orings, grings = list(orig), list(got)
                same_struct = len(orings) == len(grings)
            else:
                same_struct = len(orig) == len(got) and all(len(x) == len(y) for x, y in zip(orig, got))
                orings = [r for poly in orig for r in poly]
                grings = [r for poly in got for r in poly]
            if not same_struct:
                col.violation(f"{kind}.structure", dict(c, index=i), f"parts/rings changed: {orig} -> {got}")
                continue
            flags = shell_flags(kind, e) if e != () else []
            lat_rings = rings_list(kind, e) if e != () else []
            for ri, (o, g) in enumerate(zip(orings, grings)):
                opts = [tuple(o[k:k + 2]) for k in range(0, len(o), 2)]
                gpts = [tuple(g[k:k + 2]) for k in range(0, len(g), 2)]
                if gpts != opts and gpts != opts[::-1]:
                    col.violation(f"{kind}.ring_vertices", dict(c, index=i, ring=ri),
                                  f"ring {ri}: {opts} -> {gpts} is neither the same sequence nor its reverse")
                    continue
                # direction: sign of the exact signed area of the lattice ring (as listed or reversed)
                lr = lat_rings[ri]
                a2 = O.signed_area2_ring(lr) if (len(lr) >= 3 and lr[0] == lr[-1]) else 0    # direction only for closed rings
                if a2 != 0:
                    col.count("nontrivial")
                    res_a2 = a2 if gpts == opts else -a2
                    if gpts == opts and gpts == opts[::-1]:
                        res_a2 = a2
                    want_pos = flags[ri]
                    if (res_a2 > 0) != want_pos:
                        col.violation(f"{kind}.direction", dict(c, index=i, ring=ri),
                                      f"{'shell' if want_pos else 'hole'} ring {ri} of {jelem(e)} ends up "
                                      f"{'ccw' if res_a2 > 0 else 'cw'}")
        # idempotence
        try:
            res2 = res.oriented()
            if res2.data.to_pylist() != after:
                bad = [k for k, (x, y) in enumerate(zip(res2.data.to_pylist(), after)) if x != y]
                col.violation(f"{kind}.idempotent", dict(c, index=a + bad[0]),
                              f"oriented(oriented(a)) != oriented(a) at {bad}: {after[bad[0]]} -> {res2.data.to_pylist()[bad[0]]}")
        except Exception as ex:
            col.violation(f"{kind}.oriented2.raises", c, f"{type(ex).__name__}: {ex}")
        # area for valid inputs: non-negative, unchanged magnitude
        ar_before = np.asarray(arr.area, dtype=float)
        ar_after = np.asarray(res.area, dtype=float)
        for i in range(a, b):
            e = elems[i]
            if e in (None, ()):
                continue
            polys = [e] if kind == "polygon" else list(e)
            if all(is_valid_input(p) for p in polys):
                col.count("valid_inputs")
                # magnitude per part (parts of a multipolygon may be wound differently, so only the
                # per-part magnitudes are preserved, not the magnitude of their signed sum)
                want = sum(abs(O.area2("polygon", p)) for p in polys) * T[0] * T[0] / 2.0
                mag = sum(abs(ax * by) + abs(bx * ay) for p in polys for r in p
                          for (ax, ay), (bx, by) in zip(r[:-1], r[1:])) * T[0] * T[0]
                if mag >= 2 ** 52:
                    col.count("area_clause_skipped_inexact")     # float64 shoelace no longer exact
                    continue
                # statement: non-negative with unchanged magnitude (single polygon: literally |before|;
                # multipolygon: the sum of the per-part magnitudes, from the exact oracle)
                ref = abs(ar_before[i - a]) if len(polys) == 1 else want
                if not (ar_after[i - a] >= 0 and ar_after[i - a] == ref):
                    col.violation(f"{kind}.area", dict(c, index=i),
                                  f"valid element {jelem(e)}: area {ar_before[i - a]} -> {ar_after[i - a]}, expected {ref}")
        # intersection results unchanged (inputs with holes opposite to their shell)
        if deep:
            ok_rows = [i - a for i in range(a, b)
                       if elems[i] in (None, ()) or all(is_valid_input(p) for p in ([elems[i]] if kind == "polygon" else elems[i]))]
            if ok_rows:
                for box in boxes:
                    tb = L.tf_box(T, box)
                    col.count("evaluations")
                    x = np.asarray(arr.intersects_bounds(tb))[ok_rows]
                    y = np.asarray(res.intersects_bounds(tb))[ok_rows]
                    if (x != y).any():
                        col.violation(f"{kind}.intersects_bounds_changed", dict(c, box=list(box)),
                                      f"box {box}: {x.tolist()} -> {y.tolist()}")
                        break
                parr = L.make_array("point", qpts, "float64", T)
                for r in ok_rows:
                    if elems[a + r] in (None, ()):
                        continue
                    col.count("evaluations")
                    x = np.asarray(parr.intersects(arr[r]))
                    y = np.asarray(parr.intersects(res[r]))
                    if (x != y).any():
                        k = int(np.nonzero(x != y)[0][0])
                        col.violation(f"{kind}.point_intersects_changed", dict(c, index=a + r, point=list(qpts[k])),
                                      f"point {qpts[k]} vs element {jelem(elems[a + r])}: {x[k]} -> {y[k]}")
    col.sample({"kind": kind, "subtype": st, "elems": [jelem(e) for e in elems][:2]})


def orient_lattice(kind, e):
    """the lattice element with every ring of non-zero area in its normalised direction (shells ccw, holes cw)"""
    if e in (None, ()):
        return e
    flags = shell_flags(kind, e)
    rings = rings_list(kind, e)
    out = []
    for r, pos in zip(rings, flags):
        a2 = O.signed_area2_ring(r) if (len(r) >= 3 and r[0] == r[-1]) else 0
        out.append(tuple(r[::-1]) if (a2 != 0 and (a2 > 0) != pos) else tuple(r))
    if kind == "polygon":
        return tuple(out)
    res, k = [], 0
    for poly in e:
        res.append(tuple(out[k:k + len(poly)]))
        k += len(poly)
    return tuple(res)


def check_histories(col, kind, st, T, elems1, elems2, boxes, qpts):
    """an array that is the concatenation of an already normalised array (or a slice / copy / take / pickle of one) with rows
    that were never normalised: oriented() must still normalise every row"""
    import pickle

    import pandas as pd
    A_raw = L.make_array(kind, elems1, st, T)
    try:
        A = A_raw.oriented()
    except Exception:
        return                                  # reported by the plain units
    o1 = [orient_lattice(kind, e) for e in elems1]
    if A.data.to_pylist() != L.make_array(kind, o1, st, T).data.to_pylist():
        return                                  # a plain unit reports what is wrong with oriented() itself
    B = L.make_array(kind, elems2, st, T)
    cls = type(A)
    n1 = len(elems1)
    variants = [("oriented", A, o1), ("oriented[1:]", A[1:], o1[1:]), ("oriented.copy", A.copy(), o1),
                ("oriented.take", A.take(list(range(n1))[::-1]), o1[::-1]), ("oriented.pickle", pickle.loads(pickle.dumps(A)), o1)]
    for name, V, ov in variants:
        for how in ("concat_same_type", "pd.concat"):
            try:
                if how == "concat_same_type":
                    C = cls._concat_same_type([V, B])
                    D = cls._concat_same_type([B, V])
                else:
                    C = pd.concat([pd.Series(V), pd.Series(B)], ignore_index=True).array
                    D = pd.concat([pd.Series(B), pd.Series(V)], ignore_index=True).array
            except Exception as ex:
                col.violation(f"{kind}.history.raises", {"kind": kind, "subtype": st, "T": list(T), "history": f"{how}({name}, raw)"},
                              f"{type(ex).__name__}: {ex}")
                continue
            check_array(col, kind, st, T, list(ov) + list(elems2), boxes, qpts, deep=False, arr_override=C, label=f"{how}([{name}, raw])")
            check_array(col, kind, st, T, list(elems2) + list(ov), boxes, qpts, deep=False, arr_override=D, label=f"{how}([raw, {name}])")


def wide_polygons(st):
    """thin and fat triangles over the extreme / small values of the subtype's exactly representable
    integer range, as shells (both directions occur: every vertex permutation) and as holes"""
    from .c14 import WIDE_M
    M = WIDE_M[st]
    xs = (-M, -2, 1, M)
    ys = (-M, -M + 1, -1, 0, 2, M - 1, M)
    pts = [(x, y) for x in xs for y in ys]
    out = []
    big = ((-M, -M), (M, -M), (M, M), (-M, M), (-M, -M))
    for k, t in enumerate(itertools.permutations(pts, 3)):
        if k % 3:
            continue
        ring = t + (t[0],)
        if O.signed_area2_ring(ring) == 0:
            continue
        out.append((ring,) if k % 2 else (big, ring))
    return out


def long_arrays(kind):
    """20-element arrays (validity bitmap spans three bytes) with missing elements around the byte boundaries; the
    check also looks at the slices [1:] and [:-1]; explicit byte-aligned slices are added by the caller"""
    fam = polygon_family(False) if kind == "polygon" else multipolygon_family(False)
    el = [fam[(i * 7) % len(fam)] for i in range(20)]
    for i in (1, 7, 8, 10, 15, 18):
        el[i] = None
    el[12] = ()
    return el


def gap_arrays(kind):
    """single-ring polygons (both directions) after missing / empty elements that are NOT first: [A, None, B, C, (), D, E, None, None, F, G]"""
    sh = [((0, 0), (4, 0), (4, 4), (0, 4), (0, 0)), ((6, 6), (6, 10), (10, 10), (10, 6), (6, 6)), ((1, 1), (5, 2), (2, 6), (1, 1)),
          ((8, 0), (8, 3), (10, 0), (8, 0))]
    polys = [(r,) for r in sh] + [(r[::-1],) for r in sh]
    if kind == "multipolygon":
        polys = [(p,) for p in polys] + [(polys[0], polys[5]), (polys[2], polys[3], polys[4])]
    seq = [polys[0], None, polys[1], polys[2], (), polys[3], polys[4], None, None, polys[5], polys[6], polys[7]] + polys[8:]
    return seq


def plan(ctx):
    units = []
    for kind in ("polygon", "multipolygon"):
        units.append((kind, "long", None))
    fam_p = polygon_family(ctx.thorough)
    for st in ("float64", "int64", "int32"):
        for c in range(0, len(fam_p), 40):
            units.append(("polygon", "far:" + st, fam_p[c:c + 40]))
    for kind, fam in (("polygon", polygon_family(False)), ("multipolygon", multipolygon_family(False))):
        for c in range(0, len(fam) - 6, max(6, len(fam) // 8)):
            units.append((kind, "history", (fam[c:c + 3], fam[c + 3:c + 6])))
    for c in range(0, len(fam_p), 60):
        units.append(("polygon", "huge:int64", fam_p[c:c + 60]))
    for st in L.SUBTYPES:
        w = wide_polygons(st)
        for c in range(0, len(w), 1200):
            units.append(("polygon", "wide:" + st, w[c:c + 1200]))
    for kind, fam in (("polygon", polygon_family(ctx.thorough)), ("multipolygon", multipolygon_family(ctx.thorough))):
        # single-element arrays: every directed structure, with intersection comparison
        for c in range(0, len(fam), 24):
            units.append((kind, "singles", fam[c:c + 24]))
        # arrays of 2..3 elements over a reduced pool with missing / empty at every position
        pool = [fam[0], fam[len(fam) // 3], fam[-1], None, ()]
        if kind == "polygon":
            pool += [(rev(S), H1), (Z4,)]
        seqs = list(itertools.product(range(len(pool)), repeat=2)) + list(itertools.product(range(len(pool)), repeat=3))
        for c in range(0, len(seqs), 60):
            units.append((kind, "arrays", [[pool[k] for k in s] for s in seqs[c:c + 60]]))
    return units


def run(ctx):
    for kind in ("polygon", "multipolygon"):
        for st in L.SUBTYPES:
            fam = polygon_family(False)[:2] if kind == "polygon" else multipolygon_family(False)[:2]
            a = L.make_array(kind, [None] + list(fam), st)
            try:
                a.oriented().area
                a.intersects_bounds((0, 0, 1, 1))
            except Exception:
                pass        # the exploration itself reports it
    units = plan(ctx)
    boxes = L.all_boxes(5)
    boxes = boxes if ctx.thorough else boxes[::7]
    qpts = L.all_query_points(5)
    rot = ctx.seed % len(units)

    def work(col, i):
        j = (i + rot) % len(units)
        kind, mode, items = units[j]
        if mode == "long":
            el = long_arrays(kind)
            for st in L.SUBTYPES:
                T = L.transform_for(st, ctx.seed, salt=j)
                check_array(col, kind, st, T, el, boxes, qpts, deep=False)
                check_array(col, kind, st, T, el[8:], boxes, qpts, deep=False, pre=el[:8])
                check_array(col, kind, st, T, el[16:], boxes, qpts, deep=False, pre=el[:16])
                g = gap_arrays(kind)
                check_array(col, kind, st, T, g, boxes, qpts, deep=False)
                check_array(col, kind, st, T, g[2:], boxes, qpts, deep=False, pre=g[:2])
            return
        if mode.startswith("far:"):
            st = mode[4:]
            for e in items:
                # a long way from the origin (coordinate x coordinate products exceed 2^53) and very small rings
                for T in ((1, 2 ** 30, -(2 ** 30)), (2, -(2 ** 30) + 1, 2 ** 29 + 3)) + (((2.0 ** -16, 1, -1),) if st == "float64" else ()):
                    check_array(col, kind, st, T, [e], boxes, qpts, deep=False)
            return
        if mode == "history":
            for st in ("float64", "int32"):
                check_histories(col, kind, st, L.transform_for(st, ctx.seed, salt=j), list(items[0]) + [None], list(items[1]), boxes, qpts)
            return
        if mode == "huge:int64":
            # coordinates beyond 2^53 (not representable in float64) on shapes large enough for their direction to be decidable:
            # every ring must keep exactly its vertices
            for e in items:
                check_array(col, kind, "int64", (2 ** 20, 2 ** 53 + 1, -(2 ** 53) - 3), [e], boxes, qpts, deep=False)
            return
        if mode.startswith("wide:"):
            check_array(col, kind, mode[5:], (1, 0, 0), list(items) + [None], boxes, qpts, deep=False)
            return
        for sti, st in enumerate(L.SUBTYPES):
            T = L.transform_for(st, ctx.seed, salt=j)
            if mode == "singles":
                for e in items:
                    check_array(col, kind, st, T, [e], boxes, qpts, deep=(st == "float64" or ctx.thorough))
            else:
                if not ctx.thorough and sti not in (0, (j % 4) + 1):
                    continue
                for elems in items:
                    check_array(col, kind, st, T, elems, boxes, qpts, deep=False)

    core.pmap(ctx, work, len(units))
    ctx.rule = ("every direction assignment (2^rings) of every ring structure (2 shells x 0..2 holes from a pool "
                "incl. zero-area, 2-vertex rings; degenerate shells; multipolygons of 1..2 parts), as single-element "
                "arrays with every lattice box/point intersection compared, and every array of 2..3 elements over a "
                "pool with missing/empty at every position, full and sliced, 5 subtypes. distinct_nontrivial counts "
                "rings of non-zero area whose resulting direction was checked.")
    ctx.coverage_extra["units"] = len(units)
    ctx.assumptions = ["intersection invariance is checked for inputs whose holes are wound opposite to their shell",
                       "holes inside the shell and disjoint by construction"]


def replay(ctx, case):
    col = core.Collector()
    elems = [telem(e) for e in case["elems"]]
    check_array(col, case["kind"], case["subtype"], tuple(case["T"]), elems, L.all_boxes(5)[::7],
                L.all_query_points(5), deep=True, pre=[telem(e) for e in case.get("pre", [])] or None)
    return col.violations
