"""C06 -- a Dask geo frame answers exactly like the pandas frame it represents.

E1 (differential): base frames of n rows with two geometry columns (active one second, missing
and empty elements) x provenance (from_pandas with EVERY partition count x EVERY row mask as a
Dask filter - with and without the partition bounds already cached -, set_geometry,
pack_partitions, to_parquet + read_parquet_dask with/without geometry= and bounds=) x operation
(cx on frame and series for every lattice box, cx_partitions, bounds, total_bounds, area, length,
intersects_bounds, sjoin inner/left).  Oracle: the same operation on the computed pandas frame
with the same active geometry (which C01/C04/C05 tie to the exact oracles).
"""
import itertools
import os
import zlib

import numpy as np

from .. import core
from .. import lattice as L
from .c01 import jelem

LEVEL = "exploration"


def sq(x0, y0, x1, y1):
    return ((x0, y0), (x1, y0), (x1, y1), (x0, y1), (x0, y0))


# per base frame: (active kind, active elements, other kind, other elements); 6 rows each
BASES = [
    ("polygon", [(sq(0, 0, 2, 2),), None, (sq(2, 2, 4, 4),), (), (sq(0, 2, 2, 4),), (sq(3, 0, 4, 1),)],
     "point", [(4, 4), (0, 0), None, (2, 2), (0, 4), (1, 3)]),
    ("point", [(0, 0), (4, 4), None, (2, 2), (4, 0), (1, 3)],
     "polygon", [(sq(2, 2, 4, 4),), (sq(0, 0, 2, 2),), (), None, (sq(0, 2, 2, 4),), (sq(3, 0, 4, 1),)]),
    ("line", [((0, 0), (4, 4)), (), ((0, 4), (0, 2)), None, ((4, 0), (4, 2), (2, 2)), ((1, 1), (1, 1))],
     "multipoint", [((4, 0),), ((0, 0), (4, 4)), None, ((2, 2),), (), ((0, 4), (2, 0))]),
    ("multipolygon", [((sq(0, 0, 2, 2),), (sq(3, 3, 4, 4),)), ((sq(2, 0, 4, 2),),), None, ((sq(0, 3, 1, 4),),), (), ((sq(1, 1, 3, 3),),)],
     "multiline", [(((0, 0), (1, 1)),), None, (((4, 4), (3, 3)), ((0, 4), (0, 3))), (), (((2, 0), (2, 4)),), (((4, 0), (3, 1)),)]),
]


def boxes(thorough):
    ends = [-1, 1, 3, 5] if thorough else [-1, 2, 5]
    iv = [(a, b) for a in ends for b in ends if a < b]
    out = [(x0, y0, x1, y1) for (x0, x1) in iv for (y0, y1) in iv]
    # boxes that exactly cover single cells / the extent of typical partitions
    out += [(0, 0, 2, 2), (0, 0, 4, 4), (2, 2, 4, 4), (-1, -1, 5, 5), (0, 2, 2, 4), (1, 1, 3, 3), (0, 0, 1, 1), (3, 3, 5, 5),
            (-1, 3, 2, 5), (3, -1, 5, 1)]
    return out


def base_frame(bi, n):
    import pandas as pd
    from spatialpandas import GeoDataFrame
    ak, ae, ok_, oe = BASES[bi]
    df = GeoDataFrame({
        "other": L.make_array(ok_, oe[:n], "float64"),
        "val": np.arange(n) * 10,
        "act": L.make_array(ak, ae[:n], "float64"),
    }, index=pd.Index(np.arange(n) + 100, name="idx"), geometry="act")
    return df


def right_frame():
    from spatialpandas import GeoDataFrame
    # small shapes in two corners: many partitions do not meet any of them (how='left' must still keep their rows)
    polys = L.make_array("polygon", [(sq(-1, -1, 1.5, 1.5),), (sq(3.5, 3.5, 4.5, 4.5),), (sq(10, 10, 12, 12),)], "float64")
    import pandas as pd
    # labels are deliberately not 0..n-1 (positions and labels must not be confused)
    return GeoDataFrame({"geometry": polys, "rname": ["A", "B", "C"]}, index=pd.Index([2, 0, 1], name="rid"))


def frame_rows(df, geom_cols):
    """canonical list of rows (index label, values..., geometry pylists)"""
    out = []
    cols = list(df.columns)
    data = {}
    for c in cols:
        if c in geom_cols:
            data[c] = df[c].array.data.to_pylist()
        else:
            data[c] = [None if (isinstance(v, float) and v != v) else v for v in df[c].tolist()]
    idx = df.index.tolist()
    for r in range(len(df)):
        out.append((idx[r],) + tuple(_h(data[c][r]) for c in cols))
    return cols, out


def _h(v):
    if isinstance(v, list):
        return tuple(_h(x) for x in v)
    if isinstance(v, float) and v.is_integer():
        return int(v)
    return v


def eqf(a, b):
    a = np.asarray(a, dtype=float)
    b = np.asarray(b, dtype=float)
    return a.shape == b.shape and bool(np.all((a == b) | (np.isnan(a) & np.isnan(b))))


def _real_nparts(ddf):
    try:
        return len(ddf.divisions) - 1
    except Exception:
        return -1


def compare_ops(col, ddf, case, bxs, geom_cols, sjoin_ok, deep=True):
    """compare every operation on ddf with the same operation on its computed pandas frame"""
    import pandas as pd
    from spatialpandas import GeoDataFrame, sjoin
    S = "synchronous"
    try:
        active = ddf._meta.geometry.name
        P = ddf.compute(scheduler=S)
    except Exception as ex:
        col.violation("compute.raises", case, f"{type(ex).__name__}: {str(ex)[:200]}")
        return
    col.count("evaluations")
    if not isinstance(P, GeoDataFrame):
        col.violation("compute.type", case, f"compute() returned {type(P).__name__}")
        return
    try:
        pa_ = P.geometry.name
    except Exception:
        pa_ = None
    if pa_ != active:
        col.violation("compute.active", case, f"computed frame has active geometry {pa_!r}, collection says {active!r}")
    P = P.set_geometry(active)
    nvalid = int((~np.isnan(np.asarray(P[active].array.bounds, dtype=float)).any(axis=1)).sum()) if len(P) else 0
    parts = None
    # ---- row-wise quantities
    try:
        gs = ddf.geometry
        col.count("evaluations", 5)
        db = gs.bounds.compute(scheduler=S)
        if list(db.index) != list(P.index) or not eqf(db.values, P[active].bounds.values):
            col.violation("bounds", case, f"dask bounds {db.values.tolist()} vs pandas {P[active].bounds.values.tolist()}")
        dtb = tuple(float(v) for v in gs.total_bounds)
        ptb = tuple(float(v) for v in P[active].total_bounds)
        if not eqf(dtb, ptb):
            col.violation("total_bounds", case, f"dask total_bounds {dtb} vs pandas {ptb}", cached=case.get("cached"))
        # every geometry column of the collection (not only the active one) reports its own extent
        for c in geom_cols:
            if c in ddf.columns and c != active:
                col.count("evaluations")
                otb = tuple(float(v) for v in ddf[c].total_bounds)
                ptb2 = tuple(float(v) for v in P[c].total_bounds)
                if not eqf(otb, ptb2):
                    col.violation("total_bounds.other_column", dict(case, column=c), f"dask total_bounds of {c} {otb} vs pandas {ptb2}")
        for name in ("area", "length"):
            dv = getattr(gs, name).compute(scheduler=S)
            pv = getattr(P[active], name)
            if list(dv.index) != list(pv.index) or not eqf(dv.values, pv.values):
                col.violation(name, case, f"dask {name} {dv.values.tolist()} vs pandas {pv.values.tolist()}")
    except Exception as ex:
        col.violation("rowwise.raises", case, f"{type(ex).__name__}: {str(ex)[:200]}")
    # ---- per box
    pcols, prows_all = frame_rows(P, geom_cols)
    for bi, b in enumerate(bxs):
        try:
            col.count("evaluations", 2)
            exp = P.cx[b[0]:b[2], b[1]:b[3]]
            _, erows = frame_rows(exp, geom_cols)
            if 0 < len(erows) < nvalid:
                col.count("nontrivial")
            got = ddf.cx[b[0]:b[2], b[1]:b[3]].compute(scheduler=S)
            gcols, grows = frame_rows(got, geom_cols)
            if gcols != pcols or grows != erows:
                col.violation("cx.frame", dict(case, box=list(b)),
                              f"box {b}: dask cx rows {[r[0] for r in grows]} vs pandas {[r[0] for r in erows]}",
                              cached=case.get("cached"))
            if type(got).__name__ != "GeoDataFrame":
                col.violation("cx.type", dict(case, box=list(b)), f"type {type(got).__name__}")
            if deep or bi % 3 == 0:
                col.count("evaluations", 3)
                sgot = ddf.geometry.cx[b[0]:b[2], b[1]:b[3]].compute(scheduler=S)
                sexp = P[active].cx[b[0]:b[2], b[1]:b[3]]
                if list(sgot.index) != list(sexp.index) or sgot.array.data.to_pylist() != sexp.array.data.to_pylist():
                    col.violation("cx.series", dict(case, box=list(b)),
                                  f"box {b}: dask series cx labels {list(sgot.index)} vs pandas {list(sexp.index)}")
                ib = ddf.geometry.intersects_bounds(b).compute(scheduler=S)
                pib = P[active].intersects_bounds(b)
                if list(ib.index) != list(pib.index) or ib.values.tolist() != pib.values.tolist():
                    col.violation("intersects_bounds", dict(case, box=list(b)), f"box {b}: {ib.values.tolist()} vs {pib.values.tolist()}")
                # cx_partitions: whole partitions that together contain every intersecting row
                cp = ddf.cx_partitions[b[0]:b[2], b[1]:b[3]].compute(scheduler=S)
                if parts is None:
                    parts = [set(ddf.partitions[i].compute(scheduler=S).index.tolist()) for i in range(ddf.npartitions)]
                got_labels = cp.index.tolist()
                if not set(r[0] for r in erows) <= set(got_labels):
                    col.violation("cx_partitions.lost_rows", dict(case, box=list(b)),
                                  f"box {b}: cx_partitions labels {got_labels} miss intersecting rows {[r[0] for r in erows]}")
                gl = set(got_labels)
                if any(p and not (p <= gl or not (p & gl)) for p in parts):
                    col.violation("cx_partitions.not_whole", dict(case, box=list(b)),
                                  f"box {b}: result {sorted(gl)} is not a union of whole partitions {parts}")
        except Exception as ex:
            col.violation("cx.raises", dict(case, box=list(b)), f"box {b}: {type(ex).__name__}: {str(ex)[:200]}",
                          cached=case.get("cached"), prov=case.get("provenance"), err=type(ex).__name__,
                          nparts_claimed=ddf.npartitions, nparts_real=_real_nparts(ddf))
    # ---- several selections of the same collection evaluated in ONE graph (dask.compute(a, b), concat of selections)
    try:
        import dask
        import dask.dataframe as dd
        pairs = [(bxs[i], bxs[j]) for i in range(len(bxs)) for j in range(i + 1, len(bxs))][:: max(1, len(bxs) // 2)][:4]
        for b1, b2 in pairs:
            col.count("evaluations", 2)
            e1 = frame_rows(P.cx[b1[0]:b1[2], b1[1]:b1[3]], geom_cols)[1]
            e2 = frame_rows(P.cx[b2[0]:b2[2], b2[1]:b2[3]], geom_cols)[1]
            a, b = ddf.cx[b1[0]:b1[2], b1[1]:b1[3]], ddf.cx[b2[0]:b2[2], b2[1]:b2[3]]
            g1, g2 = dask.compute(a, b, scheduler=S)
            if frame_rows(g1, geom_cols)[1] != e1 or frame_rows(g2, geom_cols)[1] != e2:
                col.violation("cx.joint", dict(case, boxes=[list(b1), list(b2)]),
                              f"dask.compute(cx{b1}, cx{b2}): rows {[r[0] for r in frame_rows(g1, geom_cols)[1]]} / {[r[0] for r in frame_rows(g2, geom_cols)[1]]} "
                              f"vs pandas {[r[0] for r in e1]} / {[r[0] for r in e2]}")
            cat = dd.concat([a, b]).compute(scheduler=S)
            if sorted(map(repr, frame_rows(cat, geom_cols)[1])) != sorted(map(repr, e1 + e2)):
                col.violation("cx.concat", dict(case, boxes=[list(b1), list(b2)]),
                              f"dd.concat([cx{b1}, cx{b2}]): rows {sorted(r[0] for r in frame_rows(cat, geom_cols)[1])} vs pandas {sorted(r[0] for r in e1 + e2)}")
    except Exception as ex:
        col.violation("cx.joint.raises", case, f"{type(ex).__name__}: {str(ex)[:200]}")
    # ---- sjoin (left geometry must be points)
    if sjoin_ok:
        right = right_frame()
        right2 = right.assign(val=[7, 8, 9])            # a column name that clashes with the left frame
        for how, kw, rf in (("inner", {}, right), ("left", {}, right),
                            (("inner", "left")[len(P) % 2], {"lsuffix": "L", "rsuffix": "R"}, right2)):
            try:
                col.count("evaluations")
                dj = sjoin(ddf, rf, how=how, **kw).compute(scheduler=S)
                pj = sjoin(P, rf, how=how, **kw)
                _, drows = frame_rows(dj, set(geom_cols) & set(dj.columns))
                _, prow = frame_rows(pj, set(geom_cols) & set(pj.columns))
                if sorted(map(repr, drows)) != sorted(map(repr, prow)) or sorted(dj.columns) != sorted(pj.columns):
                    col.violation(f"sjoin.{how}", dict(case, sjoin_kwargs=kw), f"dask sjoin{kw or ''} columns {list(dj.columns)} rows {sorted(map(repr, drows))[:4]} vs pandas "
                                  f"{list(pj.columns)} {sorted(map(repr, prow))[:4]}")
            except Exception as ex:
                col.violation(f"sjoin.{how}.raises", dict(case, sjoin_kwargs=kw), f"{type(ex).__name__}: {str(ex)[:200]}")
    col.outcome(f"nparts={min(ddf.npartitions, 7)}")


def explore_base(col, bi, n, k, thorough, scratch, seed):
    import dask.dataframe as dd
    from spatialpandas.io import read_parquet_dask
    P0 = base_frame(bi, n)
    geom_cols = {"act", "other"}
    bxs = boxes(thorough)
    points_active = BASES[bi][0] == "point"
    points_other = BASES[bi][2] == "point"
    # ---- provenance a: from_pandas(k) + every row mask as a Dask filter
    for mbits in itertools.product((0, 1), repeat=n):
        mask_vals = [v * 10 for v, b in zip(range(n), mbits) if b]
        for cached in ((False, True) if (sum(mbits) + k) % 2 == 0 or thorough else (False,)):
            ddf = dd.from_pandas(P0, npartitions=k)
            if cached:
                ddf.partition_sindex            # caches partition bounds / index on the unfiltered frame
                _ = ddf.geometry.total_bounds
            f = ddf[ddf["val"].isin(mask_vals)]
            case = {"base": bi, "n": n, "npartitions": k, "provenance": "filter", "mask": list(mbits), "cached": cached}
            sub = bxs if (sum(mbits) >= 2) else bxs[::4]
            compare_ops(col, f, case, sub, geom_cols, points_active, deep=(zlib.crc32(repr(mbits).encode()) + k + seed) % 2 == 0 or thorough)
    ddf = dd.from_pandas(P0, npartitions=k)
    # ---- provenance a2: the result of a cx query is itself a Dask geo frame (its own partition bounds / total bounds)
    for b in bxs[1::6]:
        case = {"base": bi, "n": n, "npartitions": k, "provenance": "cx_result", "first_box": list(b)}
        r = dd.from_pandas(P0, npartitions=k).cx[b[0]:b[2], b[1]:b[3]]
        compare_ops(col, r, case, bxs[::5], geom_cols, points_active, deep=False)
        rs = dd.from_pandas(P0, npartitions=k).geometry.cx[b[0]:b[2], b[1]:b[3]]
        try:
            col.count("evaluations")
            pc = rs.compute(scheduler="synchronous")
            if not eqf(rs.total_bounds, pc.total_bounds if len(pc) else (np.nan,) * 4):
                col.violation("total_bounds", dict(case, series=True), f"series cx result: dask total_bounds {rs.total_bounds} vs pandas {pc.total_bounds}")
        except Exception as ex:
            col.violation("rowwise.raises", dict(case, series=True), f"{type(ex).__name__}: {str(ex)[:200]}")
    # ---- provenance b: set_geometry(other)
    case = {"base": bi, "n": n, "npartitions": k, "provenance": "set_geometry"}
    compare_ops(col, ddf.set_geometry("other"), case, bxs[::2], geom_cols, points_other)
    # ---- provenance c: pack_partitions
    for npk in (1, 2, 3):
        for p in (2, 10):
            case = {"base": bi, "n": n, "npartitions": k, "provenance": "pack", "pack_npartitions": npk, "p": p}
            try:
                packed = ddf.pack_partitions(npartitions=npk, p=p)
                packed.compute(scheduler="synchronous")
            except Exception:
                col.count("pack_raised_exempt")
                continue
            compare_ops(col, packed, case, bxs[::3], geom_cols, points_active, deep=False)
    # ---- provenance d: parquet
    path = os.path.join(scratch, f"c06-{os.getpid()}.parq")        # deliberately the SAME path for every unit of this worker
    try:
        ddf.to_parquet(path, overwrite=True)
    except Exception as ex:
        col.violation("to_parquet.raises", {"base": bi, "n": n, "npartitions": k, "provenance": "parquet"}, f"{type(ex).__name__}: {str(ex)[:200]}")
        return
    for geometry in (None, "other", "act"):
        case = {"base": bi, "n": n, "npartitions": k, "provenance": "parquet", "geometry": geometry}
        try:
            r = read_parquet_dask(path, geometry=geometry)
        except Exception as ex:
            col.violation("read_parquet_dask.raises", case, f"{type(ex).__name__}: {str(ex)[:200]}")
            continue
        act = geometry or "other"       # default = first geometry column
        if r._meta.geometry.name != act:
            col.violation("parquet.active", case, f"active {r._meta.geometry.name} expected {act}")
        compare_ops(col, r, case, bxs[::2], geom_cols, (BASES[bi][0] if act == "act" else BASES[bi][2]) == "point", deep=False)
    # column projections, in orders other than the file's ("other", "val", "act")
    for cols, geometry in ((["act", "val", "other"], None), (["val", "other", "act"], "act"), (["act", "val"], None),
                           (["val", "act", "other"], "other")):
        case = {"base": bi, "n": n, "npartitions": k, "provenance": "parquet_columns", "geometry": geometry, "columns": cols}
        try:
            r = read_parquet_dask(path, columns=cols, geometry=geometry)
        except Exception as ex:
            col.violation("read_parquet_dask.raises", case, f"{type(ex).__name__}: {str(ex)[:200]}")
            continue
        gc = [c for c in cols if c in geom_cols]
        act = geometry or gc[0]          # default = first geometry column of the requested frame
        if r._meta.geometry.name != act or list(r.columns) != cols:
            col.violation("parquet.active", case, f"columns {list(r.columns)} active {r._meta.geometry.name}; expected {cols} active {act}")
        compare_ops(col, r, case, bxs[::3], set(gc), (BASES[bi][0] if act == "act" else BASES[bi][2]) == "point", deep=False)
    for b in bxs[::5]:
        case = {"base": bi, "n": n, "npartitions": k, "provenance": "parquet_bounds", "geometry": "act", "bounds": list(b)}
        try:
            r = read_parquet_dask(path, geometry="act", bounds=b)
        except Exception as ex:
            col.violation("read_parquet_dask.raises", case, f"{type(ex).__name__}: {str(ex)[:200]}")
            continue
        compare_ops(col, r, case, [b, (0, 0, 4, 4)], geom_cols, points_active, deep=False)
    col.sample({"base": bi, "n": n, "npartitions": k, "provenance": "filter", "mask": [1, 0, 1, 1][:n], "op": "cx[1:3, -1:5]"})


def big_frame(active_kind):
    """12 rows with pairwise different extents: more than ten partitions (textual vs numeric order)"""
    import pandas as pd
    from spatialpandas import GeoDataFrame
    n = 12
    pts = [(i, (i * 5) % 12) for i in range(n)]
    polys = [(sq(2 * i, i % 4, 2 * i + 1, i % 4 + 1),) for i in range(n)]
    if active_kind == "point":
        a, o = L.make_array("point", pts, "float64"), L.make_array("polygon", polys, "float64")
    else:
        a, o = L.make_array("polygon", polys, "float64"), L.make_array("point", pts, "float64")
    return GeoDataFrame({"other": o, "val": np.arange(n) * 10, "act": a}, index=pd.Index(np.arange(n) + 100, name="idx"),
                        geometry="act")


def explore_big(col, active_kind, scratch, thorough):
    try:
        _explore_big(col, active_kind, scratch, thorough)
    except core.HarnessError:
        raise
    except Exception as ex:
        import traceback
        tb = traceback.extract_tb(ex.__traceback__)
        where = next((f"{os.path.basename(fr.filename)}:{fr.name}" for fr in reversed(tb) if "spatialpandas" in fr.filename), "?")
        col.violation("big.raises", {"base": "big:" + active_kind, "n": 12, "npartitions": 0, "provenance": "big"},
                      f"{type(ex).__name__}: {str(ex)[:200]} (in {where})")


def _explore_big(col, active_kind, scratch, thorough):
    import dask.dataframe as dd
    from spatialpandas.io import read_parquet_dask
    P0 = big_frame(active_kind)
    bxs = [(-1, -1, 3, 3), (4, 0, 9, 5), (10, -1, 25, 12), (0, 0, 30, 13), (20, 2, 23, 3), (5, 5, 6, 6), (11, 7, 11.5, 7.5)]
    for k in ((11, 12) if not thorough else (10, 11, 12)):
        ddf = dd.from_pandas(P0, npartitions=k)
        case = {"base": "big:" + active_kind, "n": 12, "npartitions": k, "provenance": "from_pandas"}
        compare_ops(col, ddf, case, bxs, {"act", "other"}, active_kind == "point", deep=True)
        path = os.path.join(scratch, f"c06-{os.getpid()}.parq")       # same path as every other unit of this worker
        ddf.to_parquet(path, overwrite=True)
        for geometry in ("act", None):
            case = {"base": "big:" + active_kind, "n": 12, "npartitions": k, "provenance": "parquet", "geometry": geometry}
            r = read_parquet_dask(path, geometry=geometry)
            akind = active_kind if geometry == "act" else ("polygon" if active_kind == "point" else "point")
            compare_ops(col, r, case, bxs, {"act", "other"}, akind == "point", deep=True)
            # the rows come back in the written order
            got = r.compute(scheduler="synchronous")["val"].tolist()
            if got != P0["val"].tolist():
                col.violation("parquet.order", case, f"rows read back in order {got}")
        # two datasets given as a list whose order is not the order of their paths
        pa, pb = os.path.join(scratch, f"zz-first-{os.getpid()}.parq"), os.path.join(scratch, f"aa-second-{os.getpid()}.parq")
        P1 = P0.iloc[:7]
        P2 = P0.iloc[7:]
        dd.from_pandas(P1, npartitions=3).to_parquet(pa, overwrite=True)
        dd.from_pandas(P2, npartitions=2).to_parquet(pb, overwrite=True)
        case = {"base": "big:" + active_kind, "n": 12, "npartitions": k, "provenance": "parquet_list"}
        r = read_parquet_dask([pa, pb], geometry="act")
        compare_ops(col, r, case, bxs, {"act", "other"}, active_kind == "point", deep=True)
        if r.compute(scheduler="synchronous")["val"].tolist() != P0["val"].tolist():
            col.violation("parquet.order", case, "list of datasets not concatenated in list order")
        for b in bxs[:4]:
            need = P0.cx[b[0]:b[2], b[1]:b[3]]["val"].tolist()
            have = read_parquet_dask([pa, pb], geometry="act", bounds=b).compute(scheduler="synchronous")["val"].tolist()
            col.count("evaluations")
            if not set(need) <= set(have):
                col.violation("parquet_bounds.lost_rows", dict(case, bounds=list(b)), f"bounds {b}: rows {need} intersect, read kept {have}")
        for b in bxs:
            case = {"base": "big:" + active_kind, "n": 12, "npartitions": k, "provenance": "parquet_bounds", "geometry": "act", "bounds": list(b)}
            r = read_parquet_dask(path, geometry="act", bounds=b)
            compare_ops(col, r, case, [b], {"act", "other"}, active_kind == "point", deep=False)
            # pruning must not lose a row that intersects the box
            need = P0.cx[b[0]:b[2], b[1]:b[3]]["val"].tolist()
            have = r.compute(scheduler="synchronous")["val"].tolist()
            col.count("evaluations")
            if not set(need) <= set(have):
                col.violation("parquet_bounds.lost_rows", case, f"bounds {b}: rows {need} intersect, read kept {have}")


def run(ctx):
    scratch = ctx.scratch()
    n = 5 if ctx.thorough else 4
    units = [(bi, n, k) for bi in range(len(BASES)) for k in range(1, n + 1)]
    if not ctx.thorough:
        units += [(bi, 6, k) for bi in range(len(BASES)) for k in (3, 6)][ctx.seed % 2::2]   # a slice of the larger space
    else:
        units += [(bi, 6, k) for bi in range(len(BASES)) for k in (2, 3, 4, 6)]           # n=6: masks keeping 3 or 5 rows
    # warm kernels
    for bi in range(len(BASES)):
        P = base_frame(bi, 3)
        P.cx[0:1, 0:1]
        P.geometry.area, P.geometry.length, P.geometry.bounds

    units += [("big", "point", 0), ("big", "polygon", 0)]

    def work(col, i):
        bi, nn, k = units[i]
        if bi == "big":
            explore_big(col, nn, scratch, ctx.thorough)
            if nn == "point":
                sibling_frames(col)
            return
        if nn == 6:
            explore_small(col, bi, nn, k, scratch, ctx.seed)
        else:
            explore_base(col, bi, nn, k, ctx.thorough, scratch, ctx.seed)

    units.sort(key=lambda u: (-u[1] * 10 - u[2]) if u[0] != "big" else -1000)
    core.pmap(ctx, work, len(units), timeout=7200)
    ctx.rule = ("base frames (4 kind pairs, n rows with missing/empty in both geometry columns) x from_pandas(k) for every "
                "k in 1..n x every row mask (2^n) as a Dask filter (with/without cached partition bounds) x operations "
                "(cx frame+series on the lattice boxes, cx_partitions, intersects_bounds, bounds, total_bounds, area, length, "
                "sjoin inner/left) + set_geometry, pack_partitions, parquet read-back with geometry=/bounds=. Non-trivial = "
                "cx selects a proper non-empty subset of the valid rows.")
    ctx.coverage_extra["n"] = n
    ctx.assumptions = ["the pandas side is the oracle; it is tied to exact oracles by C01/C04/C05",
                       "pack_partitions raising is exempt (C09)"]


def sibling_frames(col):
    """frames that differ ONLY in which elements their geometry column holds - equal-length slices of one parent frame with the
    index reset, and a missing point versus the point (0, 0) whose bytes fill a missing slot - made into Dask collections
    while the earlier collection is still referenced: every one must answer for its own rows"""
    import dask.dataframe as dd
    import pandas as pd
    from spatialpandas import GeoDataFrame
    S = "synchronous"
    n = 4
    parents = {
        "point": [(0, 0), (1, 5), None, (3, 1), (7, 7), None, (9, 2), (8, 8)],
        "polygon": [(sq(0, 0, 1, 1),), (sq(2, 2, 3, 3),), None, (sq(4, 0, 6, 1),), (sq(7, 7, 9, 9),), (sq(0, 5, 1, 8),), None, (sq(5, 5, 6, 6),)],
        "multiline": [(((0, 0), (1, 1)),), None, (((2, 0), (2, 3)), ((4, 4), (5, 4))), (((9, 9), (8, 7)),), (((6, 1), (7, 2)),), (((0, 9), (1, 8)),),
                      None, (((3, 3), (3, 4)),)],
    }
    groups = []
    for kind, elems in parents.items():
        big = GeoDataFrame({"val": np.arange(2 * n) % n, "geometry": L.make_array(kind, elems, "float64")})
        groups.append((f"slices:{kind}", [big.iloc[0:n].reset_index(drop=True), big.iloc[n:2 * n].reset_index(drop=True),
                                           big.iloc[2:2 + n].reset_index(drop=True)]))
    pm = GeoDataFrame({"val": np.arange(3), "geometry": L.make_array("point", [(1, 1), None, (3, 3)], "float64")})
    pz = GeoDataFrame({"val": np.arange(3), "geometry": L.make_array("point", [(1, 1), (0, 0), (3, 3)], "float64")})
    groups.append(("missing_vs_origin", [pm, pz]))
    groups.append(("origin_vs_missing", [pz, pm]))
    lm = GeoDataFrame({"val": np.arange(3), "geometry": L.make_array("line", [((1, 1), (2, 2)), None, ((3, 3), (4, 3))], "float64")})
    le = GeoDataFrame({"val": np.arange(3), "geometry": L.make_array("line", [((1, 1), (2, 2)), (), ((3, 3), (4, 3))], "float64")})
    two = GeoDataFrame({"val": np.arange(4), "geometry": L.make_array("point", [(0, 0), (1, 5), (7, 7), (3, 1)], "float64"),
                        "other": L.make_array("polygon", [(sq(5, 5, 6, 6),), (sq(0, 0, 1, 1),), (sq(2, 2, 3, 3),), (sq(8, 0, 9, 1),)], "float64")})
    groups.append(("active_geometry", [two.set_geometry("geometry"), two.set_geometry("other")]))
    groups.append(("missing_vs_empty", [lm, le]))
    groups.append(("empty_vs_missing", [le, lm]))
    boxes_ = [(-1, -1, 3.5, 3.5), (3.5, -1, 10, 10), (-0.5, -0.5, 0.5, 0.5)]
    for tag, frames in groups:
        for order in (frames, frames[::-1]):
            alive = []
            for fi, F in enumerate(order):
                case = {"base": "siblings", "n": len(F), "npartitions": 2, "provenance": "siblings:" + tag, "position": fi}
                col.count("evaluations", 4 + len(boxes_))
                try:
                    d = dd.from_pandas(F, npartitions=2)
                    alive.append(d)
                    comp = d.compute(scheduler=S)
                    if d.geometry.name != F.geometry.name or comp.geometry.name != F.geometry.name:
                        col.violation("siblings.active", case, f"{tag}: frame {fi} has active geometry {F.geometry.name!r}; the collection says "
                                      f"{d.geometry.name!r}, its computed frame {comp.geometry.name!r}")
                        continue
                    want = F["geometry"].array.data.to_pylist()
                    got = d.compute(scheduler=S)["geometry"].array.data.to_pylist()
                    if got != want:
                        col.violation("siblings.rows", case, f"{tag}: frame {fi} computes to the elements {got}, it was made from {want}")
                        continue
                    if not eqf(tuple(float(v) for v in d.geometry.total_bounds), tuple(float(v) for v in F.geometry.total_bounds)):
                        col.violation("siblings.total_bounds", case, f"{tag}: frame {fi} total_bounds {d.geometry.total_bounds} vs pandas {F.geometry.total_bounds}")
                    if not eqf(d.geometry.bounds.compute(scheduler=S).values, F.geometry.bounds.values):
                        col.violation("siblings.bounds", case, f"{tag}: frame {fi} bounds differ from pandas")
                    if not eqf(d.geometry.length.compute(scheduler=S).values, F.geometry.length.values):
                        col.violation("siblings.length", case, f"{tag}: frame {fi} length differs from pandas")
                    for b in boxes_:
                        g = d.cx[b[0]:b[2], b[1]:b[3]].compute(scheduler=S).index.tolist()
                        w = F.cx[b[0]:b[2], b[1]:b[3]].index.tolist()
                        if g != w:
                            col.violation("siblings.cx", dict(case, box=list(b)), f"{tag}: frame {fi} cx {b} selects {g}, pandas {w}")
                except Exception as ex:
                    col.violation("siblings.raises", case, f"{tag}: {type(ex).__name__}: {str(ex)[:200]}")
            del alive


def explore_small(col, bi, n, k, scratch, seed):
    """quick-tier slice of the n=6 space: every mask with exactly 3 or 5 rows kept"""
    import dask.dataframe as dd
    P0 = base_frame(bi, n)
    bxs = boxes(False)[::3]
    for mbits in itertools.product((0, 1), repeat=n):
        if sum(mbits) not in (3, 5):
            continue
        mask_vals = [v * 10 for v, b in zip(range(n), mbits) if b]
        ddf = dd.from_pandas(P0, npartitions=k)
        f = ddf[ddf["val"].isin(mask_vals)]
        case = {"base": bi, "n": n, "npartitions": k, "provenance": "filter", "mask": list(mbits), "cached": False}
        compare_ops(col, f, case, bxs, {"act", "other"}, BASES[bi][0] == "point", deep=False)


def replay(ctx, case):
    import dask.dataframe as dd
    from spatialpandas.io import read_parquet_dask
    col = core.Collector()
    scratch = ctx.scratch()
    bi, n, k = case["base"], case["n"], case["npartitions"]
    if isinstance(bi, str):
        explore_big(col, bi.split(":")[1], scratch, False)
        return col.violations
    P0 = base_frame(bi, n)
    ddf = dd.from_pandas(P0, npartitions=k)
    bxs = [tuple(case["box"])] if case.get("box") else boxes(False)
    prov = case["provenance"]
    pa = BASES[bi][0] == "point"
    if str(prov).startswith("siblings"):
        sibling_frames(col)
        return col.violations
    if prov == "filter":
        if case.get("cached"):
            ddf.partition_sindex
            _ = ddf.geometry.total_bounds
        vals = [v * 10 for v, b in zip(range(n), case["mask"]) if b]
        compare_ops(col, ddf[ddf["val"].isin(vals)], case, bxs, {"act", "other"}, pa)
    elif prov == "set_geometry":
        compare_ops(col, ddf.set_geometry("other"), case, bxs, {"act", "other"}, BASES[bi][2] == "point")
    elif prov == "pack":
        compare_ops(col, ddf.pack_partitions(npartitions=case["pack_npartitions"], p=case["p"]), case, bxs, {"act", "other"}, pa)
    else:
        path = os.path.join(scratch, "replay.parq")
        ddf.to_parquet(path, overwrite=True)
        r = read_parquet_dask(path, geometry=case.get("geometry"), bounds=tuple(case["bounds"]) if case.get("bounds") else None,
                              **({"columns": case["columns"]} if case.get("columns") else {}))
        gc = [c for c in (case.get("columns") or ["other", "act"]) if c in ("act", "other")]
        act = case.get("geometry") or gc[0]
        compare_ops(col, r, case, bxs, set(gc), (BASES[bi][0] if act == "act" else BASES[bi][2]) == "point")
    return col.violations
