"""C14 -- length, area and boundary are the exact measures of each element.

E1: ring/part structures first (0..3 rings per polygon, 1..5 vertices per ring, 1..3 parts),
then lattice coordinates; lines with a NaN vertex at every position; missing rows at several
positions; buffer offsets 0/1/2; integer and float subtypes; scalar, array and GeoSeries forms;
every scene pushed through an exactness-preserving similarity (translation invariance).
Oracle: integer shoelace (signed, summed over all rings of all parts), exact / fsum lengths.
"""
import itertools
import math

import numpy as np

from .. import core
from .. import lattice as L
from .. import oracle as O
from .c01 import jelem, telem
from .c13 import tfe

LEVEL = "exploration"
NAN = float("nan")

# ring pool: by vertex count; closed rings unless noted
RINGS = [
    ((2, 2),),                                             # 1 vertex
    ((0, 0), (4, 0)),                                      # 2 vertices (open)
    ((0, 0), (0, 0)),                                      # 2 vertices, zero length
    ((0, 0), (4, 0), (0, 0)),                              # 3 entries: closed 2-gon, zero area
    ((0, 0), (4, 0), (0, 4), (0, 0)),                      # triangle ccw
    ((0, 0), (0, 4), (4, 0), (0, 0)),                      # triangle cw
    ((0, 0), (6, 0), (6, 8), (0, 8), (0, 0)),              # rectangle ccw, 6-8-10 diagonal not used
    ((2, 2), (2, 4), (4, 4), (4, 2), (2, 2)),              # square cw (a hole)
    ((0, 0), (2, 0), (4, 0), (2, 0), (0, 0)),              # collinear closed, zero area
    ((0, 0), (3, 4), (6, 0), (0, 0)),                      # 3-4-5 triangle
    ((1, 0), (4, 2), (2, 5), (1, 0)),                      # generic (irrational side lengths)
]


def polygons(thorough):
    out = [()]
    R = RINGS
    out += [(r,) for r in R]
    out += list(itertools.product(R, repeat=2))
    if thorough:
        out += list(itertools.product(R, repeat=3))
    else:
        R3 = [R[0], R[3], R[4], R[7], R[9]]
        out += list(itertools.product(R3, repeat=3))
    return out


def multipolygons(thorough):
    P = [(RINGS[4],), (RINGS[6], RINGS[7]), (RINGS[5],), (RINGS[9],), (RINGS[3],), (RINGS[10], RINGS[0]),
         (RINGS[6], RINGS[7], RINGS[1])]
    out = [()]
    out += [(p,) for p in P]
    out += list(itertools.product(P, repeat=2))
    out += list(itertools.product(P[:5] if not thorough else P, repeat=3))
    return out


def lines(thorough, floats):
    out = list(L.fam_lines(2, 4 if thorough else 3))
    out += [((0, 0), (6, 8)), ((0, 0), (8, 6), (8, 0)), ((2, 2), (5, 6), (5, 2), (2, 2)), ((0, 0), (2, 4)),
            ((1, 0), (4, 2), (2, 5)), ()]
    if floats:
        base = ((0, 0), (4, 0), (4, 3), (0, 3))
        for k in range(1, 3):
            for pos in itertools.combinations(range(4), k):
                out.append(tuple((NAN, NAN) if i in pos else base[i] for i in range(4)))
        out.append(((0, 0), (NAN, 2), (4, 0)))
        out.append(((0, 0), (float("inf"), 2), (4, 0), (4, 4)))
    return out


def multilines(thorough, floats):
    Ls = [((0, 0), (6, 8)), ((0, 0), (4, 0), (4, 4)), ((2, 2),), ((0, 0), (0, 0)), ((1, 0), (4, 2))]
    if floats:
        Ls.append(((0, 0), (NAN, NAN), (4, 0), (4, 3)))
    out = [()]
    out += [(a,) for a in Ls]
    out += list(itertools.product(Ls, repeat=2))
    out += list(itertools.product(Ls, repeat=3)) if thorough else list(itertools.product(Ls[:4], repeat=3))
    return out


def family(kind, thorough, floats):
    if kind == "point":
        return L.fam_points(2)
    if kind == "multipoint":
        return L.fam_multipoints(2)[:40] + [()]
    if kind == "line":
        return lines(thorough, floats)
    if kind == "ring":
        return [r for r in RINGS if len(r) >= 3] + list(L.fam_simple_rings(2, 4))[:200] + [()]
    if kind == "multiline":
        return multilines(thorough, floats)
    if kind == "polygon":
        return polygons(thorough)
    if kind == "multipolygon":
        return multipolygons(thorough)
    raise ValueError(kind)


WIDE_M = {"float64": 2 ** 25, "float32": 2 ** 24 - 1, "int64": 2 ** 25, "int32": 2 ** 25, "int16": 2 ** 15 - 1}


def wide_family(kind, st):
    """elements whose coordinates span the whole exactly-representable integer range of the subtype
    (differences between coordinates are then NOT representable in a narrow coordinate type):
    every vertex triple over a 4 x 7 grid of extreme / small values"""
    M = WIDE_M[st]
    xs = (-M, -2, 1, M)
    ys = (-M, -M + 1, -1, 0, 2, M - 1, M)
    pts = [(x, y) for x in xs for y in ys]
    hole = ((-3, -3), (-3, 5), (4, 5), (-3, -3))
    if kind == "point":
        return [(-M, M)]
    if kind == "multipoint":
        return [((-M, M), (M, -M))]
    triples = list(itertools.permutations(pts, 3))
    if kind == "line":
        return triples
    if kind == "ring":
        return [t + (t[0],) for t in triples[::7]]
    if kind == "multiline":
        return [(t, t[::-1]) for t in triples[::29]]
    if kind == "polygon":
        return [(t + (t[0],),) for t in triples] + [((t + (t[0],)), hole) for t in triples[::31]]
    if kind == "multipolygon":
        return [((t + (t[0],),), (hole,)) for t in triples[::13]]
    raise ValueError(kind)


def pythagorean_family(kind):
    """every primitive Pythagorean triple with hypotenuse <= 400 (legs up to 399, e.g. 20-99-101, 57-176-185), in both leg orders and
    directions, as segments / right triangles: the lengths are integers and must come out exactly"""
    import math
    tr = []
    for m in range(2, 20):
        for n in range(1, m):
            if (m - n) % 2 == 1 and math.gcd(m, n) == 1:
                a, b, c = m * m - n * n, 2 * m * n, m * m + n * n
                if c <= 400:
                    tr += [(a, b), (b, a), (2 * a, 2 * b), (3 * b, 3 * a)]
    segs = [((1, 2), (1 + a, 2 + b)) for a, b in tr] + [((5, 3), (5 - a, 3 + b)) for a, b in tr[::3]] + [((0, 0), (-a, -b)) for a, b in tr[1::3]]
    tris = [((0, 0), (a, 0), (a, b), (0, 0)) for a, b in tr] + [((2, 1), (2, 1 + b), (2 + a, 1), (2, 1)) for a, b in tr[::2]]
    if kind == "line":
        return segs + [s + (s[0],) for s in segs[::5]]
    if kind == "ring":
        return tris
    if kind == "multiline":
        return [(s, t) for s, t in zip(segs, segs[3:])]
    if kind == "polygon":
        return [(t,) for t in tris]
    if kind == "multipolygon":
        return [((t,), (u,)) for t, u in zip(tris, tris[5:])][::3]
    return []


def long_family(kind):
    """single rings / lines with many vertices (67..1031: blocked or vectorised code paths only show up beyond some count):
    staircases with integer coordinates, either direction, plus a comb with a hole"""
    out = []
    for nsteps in (30, 31, 32, 33, 62, 63, 64, 65, 127, 128, 129, 255, 257, 515):
        pts = [(0, 0)]
        for i in range(nsteps):
            pts.append((2 * i + 2, 3 * i))
            pts.append((2 * i + 2, 3 * i + 3))
        pts.append((0, 3 * nsteps))
        ring = tuple(pts) + ((0, 0),)                       # 2*nsteps + 3 vertices
        out.append((nsteps, ring))
    if kind == "line":
        return [r[:-1] for _, r in out] + [r[::-1] for _, r in out[::3]]
    if kind == "ring":
        return [r for _, r in out] + [r[::-1] for _, r in out[::2]]
    if kind == "multiline":
        return [(r[:-1], r[::-1]) for _, r in out[::2]]
    hole = ((1, 1), (1, 2), (2, 2), (1, 1))
    if kind == "polygon":
        return [(r,) for _, r in out] + [(r[::-1],) for _, r in out[1::2]] + [(r, hole) for n_, r in out[::3]]
    if kind == "multipolygon":
        return [((r,), (tuple((x + 5000, y) for x, y in r[::-1]), tuple((x + 5000, y) for x, y in hole))) for _, r in out[::2]]
    return []


def expected_measures(kind, e, s):
    """(area, (length_exact, length)) of element e (lattice coords) after scaling by s"""
    if e is None:
        return NAN, (True, NAN)
    a2 = O.area2(kind, e) if e != () else 0
    area = (a2 * s * s) / 2.0
    if e == ():
        return area, (True, 0.0)
    ex, ln = O.length_of(kind, e)
    return area, (ex, float(ln) * s)


def close(a, b, exact):
    if math.isnan(a) or math.isnan(b):
        return math.isnan(a) and math.isnan(b)
    if exact:
        return a == b
    return abs(a - b) <= 1e-12 * max(abs(a), abs(b), 1e-300)


def rings_flat(kind, e, T):
    """expected boundary (list of rings as flat coordinate lists) after transform"""
    if e is None:
        return None
    te = tfe(kind, e, T)
    rings = te if kind == "polygon" else [r for poly in te for r in poly]
    return [[float(c) for p in r for c in p] for r in rings]


def check_chunk(col, kind, elems, st, T, chunk_id=0, premodel=False):
    from spatialpandas import GeoSeries
    s = T[0]
    n0 = len(elems)
    # missing rows at front / middle / back
    model = [None] + list(elems[:n0 // 2]) + [None] + list(elems[n0 // 2:]) + [None]
    if premodel:
        model = list(elems)
    elif len(model) > 20:
        for i in (7, 9, 15, 17):          # missing rows on both sides of the bitmap's byte boundaries
            model[i] = None
    case = {"kind": kind, "subtype": st, "T": list(T), "elems": [jelem(e) for e in model]}
    try:
        arr0 = L.make_array(kind, model, st, T)
    except Exception as ex:
        col.violation("construct", case, f"{type(ex).__name__}: {ex}")
        return
    exp = [expected_measures(kind, e, s) for e in model]
    views = [("full", arr0, 0, len(model))]
    if len(model) >= 2:
        views.append(("slice[1:]", arr0[1:], 1, len(model)))
    if len(model) >= 4:
        views.append(("slice[2:-1]", arr0[2:-1], 2, len(model) - 1))
    # slices starting on byte boundaries of the validity bitmap (more missing rows are placed around them below)
    for off in (8, 16):
        if len(model) > off + 2:
            views.append((f"slice[{off}:]", arr0[off:], off, len(model)))
    for vname, arr, a, b in views:
        c = dict(case, view=vname)
        try:
            area = np.asarray(arr.area, dtype=float)
            length = np.asarray(arr.length, dtype=float)
        except Exception as ex:
            col.violation(f"{kind}.measure.raises", c, f"{type(ex).__name__}: {ex}", subtype=st)
            continue
        if len(area) != b - a or len(length) != b - a:
            col.violation(f"{kind}.measure.len", c, "wrong result length")
            continue
        for i in range(a, b):
            col.count("evaluations", 2)
            ea, (lex, el) = exp[i]
            if model[i] not in (None, ()) and (ea != 0 or el != 0):
                col.count("nontrivial")
            if not close(float(area[i - a]), ea, True):
                col.violation(f"{kind}.area", dict(c, index=i),
                              f"{vname} element {jelem(model[i])}: area {area[i - a]} expected {ea}",
                              subtype=st, missing=model[i] is None)
            if not close(float(length[i - a]), el, lex):
                col.violation(f"{kind}.length", dict(c, index=i),
                              f"{vname} element {jelem(model[i])}: length {length[i - a]} expected {el} (exact={lex})",
                              subtype=st, missing=model[i] is None)
        # boundary
        if kind in O.POLY_KINDS:
            col.count("evaluations", b - a)
            try:
                bd = arr.boundary
                bl = bd.to_pylist() if hasattr(bd, "to_pylist") else [None if x is None else x.data.as_py() for x in bd]
                bna = np.asarray(bd.isna())
                blen = np.asarray(bd.length, dtype=float)
            except Exception as ex:
                col.violation(f"{kind}.boundary.raises", c, f"{type(ex).__name__}: {ex}")
            else:
                from spatialpandas.geometry import MultiLineArray
                if not isinstance(bd, MultiLineArray) or len(bd) != b - a:
                    col.violation(f"{kind}.boundary.type", c, f"type {type(bd).__name__} len {len(bd)}")
                else:
                    for i in range(a, b):
                        er = rings_flat(kind, model[i], T)
                        got = bl[i - a]
                        if (er is None) != bool(bna[i - a]) or (er is None) != (got is None):
                            col.violation(f"{kind}.boundary.missing", dict(c, index=i),
                                          f"{vname} element {i}: missing={model[i] is None} but boundary isna={bool(bna[i - a])} value={got}")
                            continue
                        if er is not None and [[float(v) for v in r] for r in got] != er:
                            col.violation(f"{kind}.boundary.rings", dict(c, index=i),
                                          f"{vname} element {i}: boundary {got} expected {er}")
                        if not close(float(blen[i - a]), exp[i][1][1], exp[i][1][0]):
                            col.violation(f"{kind}.boundary.length", dict(c, index=i),
                                          f"{vname} element {i}: boundary length {blen[i - a]} expected {exp[i][1][1]}")
    # scalar form
    for i, e in enumerate(model):
        g = arr0[i]
        if e is None:
            if g is not None:
                col.violation(f"{kind}.scalar.missing", dict(case, index=i), "missing element not returned as None")
            continue
        col.count("evaluations", 2)
        ea, (lex, el) = exp[i]
        try:
            ga, gl = float(g.area), float(g.length)
        except Exception as ex:
            col.violation(f"{kind}.scalar.raises", dict(case, index=i),
                          f"element {jelem(e)}: {type(ex).__name__}: {ex}", empty=(e == ()))
            continue
        if not close(ga, ea, True) or not close(gl, el, lex):
            col.violation(f"{kind}.scalar", dict(case, index=i),
                          f"element {jelem(e)}: scalar area {ga} length {gl} expected {ea} {el}")
        if kind in O.POLY_KINDS and e != ():
            try:
                sb = g.boundary
                er = rings_flat(kind, e, T)
                got = [[float(v) for v in r] for r in sb.data.as_py()]
                if got != er or not close(float(sb.length), el, lex):
                    col.violation(f"{kind}.scalar.boundary", dict(case, index=i), f"boundary {got} expected {er}")
            except Exception as ex:
                col.violation(f"{kind}.scalar.boundary.raises", dict(case, index=i), f"{type(ex).__name__}: {ex}")
    # GeoSeries
    ser = GeoSeries(arr0, index=[f"r{i}" for i in range(len(model))])
    sa, sl = ser.area, ser.length
    col.count("evaluations", 2)
    ok = list(sa.index) == list(ser.index) and list(sl.index) == list(ser.index)
    ok = ok and all(close(float(sa.iloc[i]), exp[i][0], True) and close(float(sl.iloc[i]), exp[i][1][1], exp[i][1][0])
                    for i in range(len(model)))
    if not ok:
        col.violation(f"{kind}.geoseries", case, "GeoSeries.area/length differ from expected")
    k = min(1, len(model) - 1)
    col.sample({"kind": kind, "subtype": st, "T": list(T), "element": jelem(model[k]),
                "expected_area": exp[k][0], "expected_length": exp[k][1][1]})


def small_arrays(col, kind, st):
    """every array of <= 3 elements over {missing, empty, 1 part, 2 parts, 3 parts}: the number of rings / parts in the
    buffers relative to the number of elements takes every small combination (incl. equal counts unevenly distributed)"""
    R = RINGS
    if kind == "polygon":
        pool = [None, (), (R[6],), (R[6], R[7]), (R[4], R[7], R[9])]
    elif kind == "multipolygon":
        pool = [None, (), ((R[6],),), ((R[6], R[7]),), ((R[4],), (R[9], R[0])), ((R[5],), (R[6], R[7]), (R[10],))]
    else:
        pool = [None, (), (R[9],), (R[9], R[1]), (R[4], R[2], R[10])]
    for n in (1, 2, 3):
        for seq in itertools.product(range(len(pool)), repeat=n):
            elems = [pool[k] for k in seq]
            check_chunk(col, kind, elems, st, (1, 0, 0), premodel=True)


def series_history(col, kind, st):
    """one GeoSeries object read, changed in place (sort_index / drop / dropna / del / setitem-free reindexing), read again:
    the measures always describe the elements the series holds NOW"""
    from spatialpandas import GeoSeries
    fam = [e for e in family(kind, False, False) if e is not None][:40:7] + [None]
    if len(fam) < 4:
        return
    arr = L.make_array(kind, fam, st)
    labels = [f"r{i}" for i in range(len(fam))]
    case = {"kind": kind, "subtype": st, "T": [1, 0, 0], "elems": [jelem(e) for e in fam], "history": "series_inplace"}

    def ref(order):
        a = arr.take(order)
        return np.asarray(a.area, dtype=float), np.asarray(a.length, dtype=float)

    def same(x, y):
        x, y = np.asarray(x, dtype=float), np.asarray(y, dtype=float)
        return x.shape == y.shape and bool(np.all((x == y) | (np.isnan(x) & np.isnan(y))))
    n = len(fam)
    steps = [("sort_index(descending)", lambda s: s.sort_index(ascending=False, inplace=True), list(range(n))[::-1]),
             ("drop(first label)", lambda s: s.drop(s.index[0], inplace=True), list(range(n))[::-1][1:]),
             ("dropna", lambda s: s.dropna(inplace=True), [i for i in list(range(n))[::-1][1:] if fam[i] is not None]),
             ("del s[label]", lambda s: s.__delitem__(s.index[-1]), [i for i in list(range(n))[::-1][1:] if fam[i] is not None][:-1])]
    try:
        s = GeoSeries(arr, index=labels)
        a, ln = s.area, s.length                 # read first
        col.count("evaluations")
        ra, rl = ref(list(range(n)))
        if not same(a.values, ra) or not same(ln.values, rl):
            col.violation(f"{kind}.series_history", dict(case, step="initial"), "GeoSeries area/length differ from the array's")
        for name, fn, order in steps:
            fn(s)
            col.count("evaluations")
            ra, rl = ref(order)
            a, ln = s.area, s.length
            if list(a.index) != [labels[i] for i in order] or not same(a.values, ra) or not same(ln.values, rl):
                col.violation(f"{kind}.series_history", dict(case, step=name),
                              f"after {name} (in place): area {a.values.tolist()} / length {ln.values.tolist()} with index {list(a.index)}; "
                              f"the series now holds rows {[labels[i] for i in order]} with area {ra.tolist()} length {rl.tolist()}")
                break
    except Exception as ex:
        col.violation(f"{kind}.series_history.raises", case, f"{type(ex).__name__}: {str(ex)[:200]}")


def _maxabs(e):
    if isinstance(e, (tuple, list)):
        return max([_maxabs(v) for v in e] or [0])
    return abs(e)


def plan(ctx):
    units = []
    for kind in O.KINDS:
        for st in L.SUBTYPES:
            fam = family(kind, ctx.thorough, st.startswith("float"))
            step = 150
            for c in range(0, len(fam), step):
                units.append((kind, st, fam[c:c + step], None))
            if st in ("int32", "int64", "float64") and kind in ("polygon", "multipolygon", "ring", "line"):
                # small shapes a long way from the origin: coordinate x difference stays exact, coordinate x coordinate does not
                far = family(kind, False, False)
                units.append((kind, st, far[:150], (1, 2 ** 30, -(2 ** 30))))
                units.append((kind, st, far[-150:], (4, -(2 ** 30) + 1, 2 ** 29 + 3)))
            if kind in ("polygon", "multipolygon", "multiline") and st in ("float64", "int32"):
                units.append((kind, st, "small_arrays", (1, 0, 0)))
            if st in ("float64", "int32", "int16") or (ctx.thorough and st != "float32"):
                for fam2 in (pythagorean_family(kind), long_family(kind)):
                    if st == "int16":
                        fam2 = [e for e in fam2 if _maxabs(e) < 8000]
                    for c in range(0, len(fam2), 120):
                        units.append((kind, st, fam2[c:c + 120], (1, 0, 0) if st == "int16" or c % 240 else (1, -1000, 77)))
            wf = wide_family(kind, st)
            for c in range(0, len(wf), 2500):
                units.append((kind, st, wf[c:c + 2500], (1, 0, 0)))
    return units


def run(ctx):
    for kind in O.KINDS:
        for st in L.SUBTYPES:
            a = L.make_array(kind, family(kind, False, False)[:2] + [None], st)
            a.area, a.length
            a[0].area, a[0].length
    units = plan(ctx)
    rot = ctx.seed % len(units)

    def work(col, i):
        j = (i + rot) % len(units)
        kind, st, fam, Tfix = units[j]
        if isinstance(fam, str):
            small_arrays(col, kind, st)
            series_history(col, kind, st)
            return
        T = Tfix or L.transform_for(st, ctx.seed, salt=j)
        check_chunk(col, kind, fam, st, T, j)
        if T != (1, 0, 0) and st == "float64":
            check_chunk(col, kind, fam, st, (1, 0, 0), j)

    core.pmap(ctx, work, len(units))
    ctx.rule = ("polygons = every sequence of 0..3 rings over a pool of 11 rings (1..5 vertices; zero-area, "
                "collinear, cw/ccw, Pythagorean, generic); multipolygons = 1..3 parts; lines = every lattice "
                "vertex sequence plus NaN vertices at every position; x 5 subtypes x views (full, 2 slices) x "
                "array/scalar/GeoSeries forms x similarity transform; plus a wide-range family per subtype whose coordinates "
                "span the subtype's whole exactly-representable integer range. distinct_nontrivial counts present "
                "elements with non-zero area or length.")
    ctx.coverage_extra["units"] = len(units)
    ctx.assumptions = ["rings closed (first == last) when they have >= 3 entries", "no 0-vertex rings inside a polygon",
                       "coordinates exactly representable; float32 magnitudes kept within 24-bit products"]


def replay(ctx, case):
    col = core.Collector()
    if case.get("history") == "series_inplace":
        series_history(col, case["kind"], case["subtype"])
        return col.violations
    model = [telem(e) for e in case["elems"]]
    check_chunk(col, case["kind"], model, case["subtype"], tuple(case["T"]), premodel=True)
    return col.violations
