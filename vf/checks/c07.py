"""C07 -- the Hilbert curve mapping is a locality-preserving bijection.

E1, exhaustive per (n, p) up to 2^20 cells: every clause of the statement is checked on the whole
grid (round trips both ways, permutation, adjacency of consecutive distances, refinement between
successive orders, end points, scalar == vectorised).  For larger p (n*p <= 62) the same clauses
are checked on a deterministic structured family of quadrant-seam cells / distances.
"""
import numpy as np

from .. import core

LEVEL = "exploration"


def grid_cells(n, p):
    side = 1 << p
    if n == 1:
        return np.arange(side, dtype=np.int64).reshape(-1, 1)
    axes = np.meshgrid(*[np.arange(side, dtype=np.int64)] * n, indexing="ij")
    return np.stack([a.ravel() for a in axes], axis=1)


def check_exhaustive(col, n, p, scalar=False):
    from spatialpandas.spatialindex import hilbert_curve as hc
    N = 1 << (n * p)
    side = 1 << p
    case = {"mode": "exhaustive", "n": n, "p": p}
    h = np.arange(N, dtype=np.int64)
    try:
        c = hc.coordinates_from_distances(p, n, h)
        cells = grid_cells(n, p)
        cells_before = cells.copy()
        d = hc.distances_from_coordinates(p, cells)
    except Exception as ex:
        col.violation("raises", case, f"{type(ex).__name__}: {ex}")
        return None
    col.count("evaluations", 2 * N)
    if p >= 2:
        col.count("nontrivial", N)
    if (cells != cells_before).any():
        col.violation("vectorised_mutates_input", case, "distances_from_coordinates modified its argument")
    # coordinate arrays of every integer dtype wide enough for the grid give the same distances
    for dt in (np.int32, np.int16, np.uint8, np.uint16, np.uint32, np.int8):
        if side - 1 <= np.iinfo(dt).max:
            col.count("evaluations", N)
            try:
                dn = hc.distances_from_coordinates(p, cells.astype(dt))
                if (np.asarray(dn).astype(np.int64) != d).any():
                    k = int(np.nonzero(np.asarray(dn).astype(np.int64) != d)[0][0])
                    col.violation("coord_dtype", dict(case, dtype=np.dtype(dt).name, cell=cells[k].tolist()),
                                  f"{np.dtype(dt).name} cell {cells[k].tolist()}: {int(dn[k])} vs int64 result {int(d[k])}")
            except Exception as ex:
                col.violation("coord_dtype.raises", dict(case, dtype=np.dtype(dt).name), f"{type(ex).__name__}: {ex}")
    # distance arrays of every integer dtype wide enough decode to the same cells
    for dt in (np.uint64, np.int32, np.uint32, np.uint16, np.int16, np.uint8):
        if N - 1 <= np.iinfo(dt).max:
            col.count("evaluations", N)
            try:
                cn = hc.coordinates_from_distances(p, n, h.astype(dt))
                if (np.asarray(cn).astype(np.int64) != c).any():
                    k = int(np.nonzero((np.asarray(cn).astype(np.int64) != c).any(axis=1))[0][0])
                    col.violation("distance_dtype", dict(case, dtype=np.dtype(dt).name, h=k),
                                  f"{np.dtype(dt).name} distance {k}: {np.asarray(cn)[k].tolist()} vs int64 result {c[k].tolist()}")
            except Exception as ex:
                col.violation("distance_dtype.raises", dict(case, dtype=np.dtype(dt).name), f"{type(ex).__name__}: {ex}")
    # descending / shuffled order of the distances (a vectorised decoder must not carry state between rows)
    perm = np.concatenate([h[::-1][: N // 2], h[: N - N // 2][::3], h[1::3], h[2::3]]) if N > 3 else h[::-1]
    cp = hc.coordinates_from_distances(p, n, perm)
    col.count("evaluations", len(perm))
    if (cp != c[perm]).any():
        k = int(np.nonzero((cp != c[perm]).any(axis=1))[0][0])
        col.violation("order_dependent_decode", dict(case, h=int(perm[k])),
                      f"decoding {int(perm[k])} after {int(perm[k - 1]) if k else None} gives {cp[k].tolist()}, alone {c[perm[k]].tolist()}")
    # range
    if c.shape != (N, n) or (c < 0).any() or (c >= side).any():
        col.violation("coords_out_of_grid", case, "coordinates outside [0, 2^p)")
        return None
    if (d < 0).any() or (d >= N).any():
        col.violation("distance_out_of_range", case, "distance outside [0, 2^(np))")
        return None
    # permutation: every cell visited exactly once
    flat = np.zeros(N, dtype=np.int64)
    for k in range(n):
        flat = flat * side + c[:, k]
    if len(np.unique(flat)) != N:
        col.violation("not_a_permutation", case, "distances 0..2^(np)-1 do not visit every cell exactly once")
    if len(np.unique(d)) != N:
        col.violation("not_injective", case, "two cells share a distance")
    # round trips
    back = hc.distances_from_coordinates(p, c)
    if (back != h).any():
        k = int(np.nonzero(back != h)[0][0])
        col.violation("roundtrip_d_c_d", dict(case, h=k), f"h={k} -> {c[k].tolist()} -> {int(back[k])}")
    back2 = hc.coordinates_from_distances(p, n, d)
    if (back2 != cells).any():
        k = int(np.nonzero((back2 != cells).any(axis=1))[0][0])
        col.violation("roundtrip_c_d_c", dict(case, cell=cells[k].tolist()),
                      f"cell {cells[k].tolist()} -> {int(d[k])} -> {back2[k].tolist()}")
    # adjacency
    if N > 1:
        diff = np.abs(c[1:] - c[:-1])
        ok = (diff.sum(axis=1) == 1)
        if not ok.all():
            k = int(np.nonzero(~ok)[0][0])
            col.violation("not_adjacent", dict(case, h=k), f"h={k}:{c[k].tolist()} and h={k + 1}:{c[k + 1].tolist()} are not grid neighbours")
    # end points
    if c[0].tolist() != [0] * n:
        col.violation("start", case, f"curve starts at {c[0].tolist()}")
    if c[-1].tolist() != [side - 1] + [0] * (n - 1):
        col.violation("end", case, f"curve ends at {c[-1].tolist()}, expected {[side - 1] + [0] * (n - 1)}")
    # scalar entry points
    if scalar:
        for k in range(N):
            col.count("evaluations", 2)
            cc = hc.coordinate_from_distance(p, n, int(h[k]))
            if list(int(v) for v in cc) != c[k].tolist():
                col.violation("scalar_coordinate", dict(case, h=k), f"scalar {list(cc)} vs vectorised {c[k].tolist()}")
                break
            dd = hc.distance_from_coordinate(p, cells[k].copy())
            if int(dd) != int(d[k]):
                col.violation("scalar_distance", dict(case, cell=cells[k].tolist()), f"scalar {int(dd)} vs vectorised {int(d[k])}")
                break
    col.outcome(f"n{n}")
    col.sample({"n": n, "p": p, "cells": N, "first": c[:4].tolist(), "last": c[-1].tolist()})
    return d, cells


def check_refinement(col, n, p, d_hi=None, cells_hi=None):
    """d_{p+1}(c) >> n == d_p(c >> 1) for every cell c of order p+1"""
    from spatialpandas.spatialindex import hilbert_curve as hc
    if cells_hi is None:
        cells_hi = grid_cells(n, p + 1)
        d_hi = hc.distances_from_coordinates(p + 1, cells_hi)
    parent = hc.distances_from_coordinates(p, cells_hi >> 1)
    col.count("evaluations", len(cells_hi))
    bad = (d_hi >> n) != parent
    if bad.any():
        k = int(np.nonzero(bad)[0][0])
        col.violation("refinement", {"mode": "refine", "n": n, "p": p, "cell": cells_hi[k].tolist()},
                      f"cell {cells_hi[k].tolist()} order {p + 1}: d={int(d_hi[k])}, d>>n={int(d_hi[k] >> n)}, parent d={int(parent[k])}")


def seam_values(p):
    side = 1 << p
    vals = set()
    for v in (0, 1, 2, 3):
        vals.add(v)
        vals.add(side - 1 - v)
    half = side >> 1
    for v in (-2, -1, 0, 1):
        vals.add(half + v)
    for b in range(p):
        vals.add(1 << b)
        vals.add((1 << b) - 1)
    alt = 0
    for b in range(0, p, 2):
        alt |= 1 << b
    vals.add(alt)
    vals.add(alt >> 1 if p > 1 else 0)
    return sorted(v for v in vals if 0 <= v < side)


def check_structured(col, n, p):
    from spatialpandas.spatialindex import hilbert_curve as hc
    side = 1 << p
    N = 1 << (n * p)
    case = {"mode": "structured", "n": n, "p": p}
    vals = seam_values(p)
    axes = np.meshgrid(*[np.array(vals, dtype=np.int64)] * n, indexing="ij")
    cells = np.stack([a.ravel() for a in axes], axis=1)
    try:
        d = hc.distances_from_coordinates(p, cells)
        back = hc.coordinates_from_distances(p, n, d)
    except Exception as ex:
        col.violation("raises", case, f"{type(ex).__name__}: {ex}")
        return
    col.count("evaluations", len(cells))
    col.count("nontrivial", len(cells))
    if (d < 0).any() or (d >= N).any():
        col.violation("distance_out_of_range", case, "distance outside [0, 2^(np))")
    for dt in (np.int32, np.uint32, np.uint16, np.int16, np.uint64):
        if side - 1 <= np.iinfo(dt).max:
            col.count("evaluations", len(cells))
            raw = np.asarray(hc.distances_from_coordinates(p, cells.astype(dt)))
            # values only (whatever number type carries them): a float carrier shows up as wrong values beyond 2^53
            dn = np.array([int(v) for v in raw.tolist()], dtype=np.int64) if raw.dtype.kind == "f" else raw.astype(np.int64)
            if dt is np.uint64 and len(cells):
                # the scalar entry point on a row of the same dtype
                k0 = len(cells) - 1
                sv = hc.distance_from_coordinate(p, cells[k0].astype(dt))
                if int(sv) != int(d[k0]):
                    col.violation("coord_dtype", dict(case, dtype="uint64", cell=cells[k0].tolist()),
                                  f"scalar distance of uint64 cell {cells[k0].tolist()}: {sv!r} vs {int(d[k0])}")
            if (dn != d).any():
                k = int(np.nonzero(dn != d)[0][0])
                col.violation("coord_dtype", dict(case, dtype=np.dtype(dt).name, cell=cells[k].tolist()),
                              f"{np.dtype(dt).name} cell {cells[k].tolist()}: {int(dn[k])} vs int64 result {int(d[k])}")
    # the vectorised entry point given ONE coordinate (a 1-d array / a list): a single distance, the scalar one
    for k in (0, len(cells) // 2, len(cells) - 1):
        if len(cells):
            col.count("evaluations", 2)
            for one in (cells[k].copy(),):
                try:
                    dv = np.asarray(hc.distances_from_coordinates(p, one))
                    if dv.shape != (1,) or int(dv[0]) != int(d[k]):
                        col.violation("single_coordinate", dict(case, cell=cells[k].tolist()),
                                      f"distances_from_coordinates(p, {type(one).__name__} {cells[k].tolist()}) = {dv.tolist()} expected [{int(d[k])}]")
                except Exception as ex:
                    col.violation("single_coordinate.raises", dict(case, cell=cells[k].tolist()), f"{type(ex).__name__}: {ex}")
    if (back != cells).any():
        k = int(np.nonzero((back != cells).any(axis=1))[0][0])
        col.violation("roundtrip_c_d_c", dict(case, cell=cells[k].tolist()),
                      f"cell {cells[k].tolist()} -> {int(d[k])} -> {back[k].tolist()}")
    if len(np.unique(d)) != len(cells):
        col.violation("not_injective", case, "two structured cells share a distance")
    # refinement against the parent order
    if p >= 2:
        parent = hc.distances_from_coordinates(p - 1, cells >> 1)
        bad = (d >> n) != parent
        if bad.any():
            k = int(np.nonzero(bad)[0][0])
            col.violation("refinement", dict(case, cell=cells[k].tolist()),
                          f"cell {cells[k].tolist()} order {p}: d>>n={int(d[k] >> n)} parent d={int(parent[k])}")
    # structured distances k*2^(n*j) +- e and their successors
    hs = set()
    for j in range(p + 1):
        unit = 1 << (n * j)
        for k in range(0, 1 << n):
            for e in (-2, -1, 0, 1, 2):
                v = k * unit + e
                if 0 <= v < N - 1:
                    hs.add(v)
    hs.update(v for v in (0, N - 2, N // 2 - 1, N // 2, N // 3, 2 * N // 3) if 0 <= v < N - 1)
    hs = np.array(sorted(hs), dtype=np.int64)
    c0 = hc.coordinates_from_distances(p, n, hs)
    c1 = hc.coordinates_from_distances(p, n, hs + 1)
    for dt in (np.uint64, np.uint32, np.int32):
        if N - 1 <= np.iinfo(dt).max:
            col.count("evaluations", len(hs))
            cu = np.asarray(hc.coordinates_from_distances(p, n, hs.astype(dt))).astype(np.int64)
            if (cu != c0).any():
                k = int(np.nonzero((cu != c0).any(axis=1))[0][0])
                col.violation("distance_dtype", dict(case, dtype=np.dtype(dt).name, h=int(hs[k])),
                              f"{np.dtype(dt).name} distance {int(hs[k])}: {cu[k].tolist()} vs int64 result {c0[k].tolist()}")
    cr = hc.coordinates_from_distances(p, n, hs[::-1].copy())[::-1]
    if (cr != c0).any():
        k = int(np.nonzero((cr != c0).any(axis=1))[0][0])
        col.violation("order_dependent_decode", dict(case, h=int(hs[k])), f"decoding in descending order changes the cell of {int(hs[k])}")
    col.count("evaluations", 2 * len(hs))
    if (c0 < 0).any() or (c0 >= side).any():
        col.violation("coords_out_of_grid", case, "coordinates outside the grid")
    ok = np.abs(c1 - c0).sum(axis=1) == 1
    if not ok.all():
        k = int(np.nonzero(~ok)[0][0])
        col.violation("not_adjacent", dict(case, h=int(hs[k])),
                      f"h={int(hs[k])}:{c0[k].tolist()} and h+1:{c1[k].tolist()} are not grid neighbours")
    b0 = hc.distances_from_coordinates(p, c0)
    if (b0 != hs).any():
        k = int(np.nonzero(b0 != hs)[0][0])
        col.violation("roundtrip_d_c_d", dict(case, h=int(hs[k])), f"h={int(hs[k])} -> {c0[k].tolist()} -> {int(b0[k])}")
    first = hc.coordinates_from_distances(p, n, np.array([0, N - 1], dtype=np.int64))
    if first[0].tolist() != [0] * n:
        col.violation("start", case, f"curve starts at {first[0].tolist()}")
    if first[1].tolist() != [side - 1] + [0] * (n - 1):
        col.violation("end", case, f"curve ends at {first[1].tolist()}")
    col.sample({"n": n, "p": p, "structured_cells": len(cells), "structured_distances": len(hs)})


INTERP_SCRIPT = r"""
import json, sys
sys.path[:0] = [sys.argv[1], sys.argv[2]]
from vf import core
from vf.checks import c07
col = core.Collector()
for n, pm in ((1, 13), (2, 6), (3, 4)):
    for p in range(1, pm + 1):
        r = c07.check_exhaustive(col, n, p, scalar=(n * p <= 8))
        if p >= 2 and r is not None:
            c07.check_refinement(col, n, p - 1, r[0], r[1])
for n, p in ((2, 31), (1, 62), (3, 8), (2, 17), (1, 33)):
    c07.check_structured(col, n, p)
print("DUMP" + json.dumps(col.dump(), default=str))
"""


def check_interpreted(col):
    """the same clauses with numba's JIT switched off (NUMBA_DISABLE_JIT=1: the kernels run as plain Python/NumPy code,
    whose integer promotion rules differ from the compiled ones), in a separate process"""
    import os
    import subprocess
    import sys
    env = dict(os.environ, NUMBA_DISABLE_JIT="1")
    repo = os.environ.get("VERIF_REPO", "/repo")
    verif = os.path.dirname(os.path.dirname(os.path.dirname(os.path.abspath(__file__))))
    r = subprocess.run([sys.executable, "-c", INTERP_SCRIPT, repo, verif], env=env, capture_output=True, text=True, timeout=1500)
    line = next((ln for ln in r.stdout.splitlines() if ln.startswith("DUMP")), None)
    if line is None:
        col.violation("interpreted.raises", {"mode": "interpreted"}, f"NUMBA_DISABLE_JIT=1 run failed: {r.stderr[-400:]}")
        return
    import json
    d = json.loads(line[4:])
    for v in d["violations"]:
        v["case"] = dict(v["case"], interpreted=True)
        v["tags"]["site"] = "interpreted." + v["tags"]["site"]
    col.merge(d)
    col.count("interpreted_mode_evaluations", d["counters"].get("evaluations", 0))


def plan(ctx):
    T = ctx.thorough
    units = []
    ex = {2: 11, 1: 22, 3: 7} if T else {2: 10, 1: 20, 3: 6}
    for n, pmax in ex.items():
        for p in range(1, pmax + 1):
            units.append(("ex", n, p))
    for n in (1, 2, 3):
        for p in range(ex[n] + 1, 62 // n + 1):
            units.append(("st", n, p))
    # largest first for load balance
    units.sort(key=lambda u: -(u[1] * u[2]) if u[0] == "ex" else 0)
    return units, ex


def run(ctx):
    from spatialpandas.spatialindex import hilbert_curve as hc
    hc.coordinates_from_distances(2, 2, np.arange(4, dtype=np.int64))
    hc.distances_from_coordinates(2, np.zeros((1, 2), dtype=np.int64))
    hc.coordinate_from_distance(2, 2, 1)
    hc.distance_from_coordinate(2, np.zeros(2, dtype=np.int64))
    for n in (1, 3):
        hc.coordinates_from_distances(2, n, np.arange(2, dtype=np.int64))
        hc.distances_from_coordinates(2, np.zeros((1, n), dtype=np.int64))
        hc.distance_from_coordinate(2, np.zeros(n, dtype=np.int64))
        hc.coordinate_from_distance(2, n, 1)
    units, ex = plan(ctx)

    # check_interpreted (the same clauses with NUMBA_DISABLE_JIT=1) is NOT part of the check: the property does not promise that
    # the library works with the JIT switched off, and a property-preserving rewrite of the bit interleaving that relies on
    # numba's integer promotion fails there (false alarm found by the false-alarm wave, DESIGN 8.9). Kept as a development aid.

    def work(col, i):
        mode, n, p = units[i]
        if mode == "interp":
            check_interpreted(col)
        elif mode == "ex":
            r = check_exhaustive(col, n, p, scalar=(n * p <= 12))
            if p >= 2 and r is not None:
                check_refinement(col, n, p - 1, r[0], r[1])
        else:
            check_structured(col, n, p)

    core.pmap(ctx, work, len(units))
    ctx.rule = ("all cells and all distances for every (n,p) up to the exhaustive limit; beyond it a structured "
                "family: every cell with coordinates from {0..3, 2^(p-1)-2..2^(p-1)+1, 2^p-4..2^p-1, single bits, "
                "all-ones-below-bit, alternating bits}^n and every distance k*2^(nj)+e (e in -2..2) with its successor. "
                "distinct_nontrivial counts distinct (p, cell) pairs with p >= 2.")
    ctx.coverage_extra["exhaustive_up_to"] = {f"n={n}": f"p={p}" for n, p in ex.items()}
    ctx.coverage_extra["structured_family_beyond"] = {f"n={n}": f"p={ex[n] + 1}..{62 // n}" for n in ex}
    ctx.exhaustive = True
    ctx.assumptions = ["scalar distance_from_coordinate works in place on its argument and is always given a copy",
                       "exhaustive only up to the stated p; larger p covered on the structured seam family"]


def replay(ctx, case):
    col = core.Collector()
    if case.get("interpreted") or case.get("mode") == "interpreted":
        check_interpreted(col)
        return col.violations
    if case["mode"] == "structured":
        check_structured(col, case["n"], case["p"])
    elif case["mode"] == "refine":
        check_refinement(col, case["n"], case["p"])
    else:
        r = check_exhaustive(col, case["n"], case["p"], scalar=(case["n"] * case["p"] <= 12))
        if case["p"] >= 2 and r is not None:
            check_refinement(col, case["n"], case["p"] - 1, r[0], r[1])
    return col.violations
