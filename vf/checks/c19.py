"""C19 -- transient filesystem faults never yield a silently wrong packed dataset.

E4, deviation-bounded fault enumeration on the REAL pack_partitions_to_parquet over an
instrumented fsspec filesystem: for every position k of the run's filesystem-call sequence and
every fault kind applicable to call k (OSError, FileNotFoundError before the call takes effect;
stale listing for listing calls), once, repeated within the retry budget (R-1 times) and repeated
until the budget is exhausted (R times, the run aborts at that crash point); pairs of faults in
thorough mode.  Oracle: returned => dataset tree, per-file rows, partition bounds and temp
directories identical to the fault-free reference; raised => a repeat with overwrite=True on a
healthy filesystem yields the reference dataset.
"""
import json
import os
import shutil
import uuid

import numpy as np

from .. import core
from .. import lattice as L
from ..faultfs import LISTING, CopyRemoveFS, VerifFS

LEVEL = "fault_enumeration"
R = 3
_EXEC = [0]
FIXED_UUID = uuid.UUID("12345678-1234-5678-1234-567812345678")


def sq(x0, y0, x1, y1):
    return ((x0, y0), (x1, y0), (x1, y1), (x0, y1), (x0, y0))


CONFIGS = {
    # name: (tempdir mode, rows variant, requested partitions, overwrite over an old dataset)
    "default-full": ("default", "distinct", 3, False),
    "default-empty": ("default", "dups", 4, False),
    "external-full": ("external", "distinct", 3, False),
    "external-empty": ("external", "dups", 4, False),
    "default-full-overwrite": ("default", "distinct", 3, True),
    "external-empty-overwrite": ("external", "dups", 4, True),
    "default-empty-overwrite": ("default", "dups", 4, True),
    "external-full-overwrite": ("external", "distinct", 3, True),
    # the same on a filesystem whose move is copy + remove
    "default-empty-copymove": ("default", "dups", 4, False, "copymove"),
    "external-empty-copymove": ("external", "dups", 4, False, "copymove"),
}


def make_frame(variant, old=False):
    import pandas as pd
    from spatialpandas import GeoDataFrame
    if old:
        pts = [(i, 9 - i) for i in range(8)]
        vals = [900 + i for i in range(8)]
    elif variant == "distinct":
        pts = [(0, 0), (7, 7), (1, 6), (6, 1), (3, 3), (5, 2)]
        vals = list(range(6))
    else:   # duplicates: quantiles collide, some output partitions come out empty
        pts = [(0, 0), (0, 0), (0, 0), (7, 7), (7, 7), None]
        vals = list(range(6))
    polys = [None if p is None else (sq(p[0], p[1], p[0] + 1, p[1] + 1),) for p in pts]
    return GeoDataFrame({"pts": L.make_array("point", pts, "float64"), "val": vals,
                         "polys": L.make_array("polygon", polys, "float64")},
                        index=pd.Index(np.arange(len(pts)) + 100, name="idx"), geometry="pts")


import re
_UUID_RE = re.compile(r"[0-9a-f]{8}-[0-9a-f]{4}-[0-9a-f]{4}-[0-9a-f]{4}-[0-9a-f]{12}")


def norm(p):
    """the per-execution uuid in temp directory names is not part of the observation"""
    return None if p is None else _UUID_RE.sub("UUID", p)


def tree(root):
    out = []
    if not os.path.exists(root):
        return out
    for dp, dn, fn in os.walk(root):
        for d in dn:
            out.append((norm(os.path.relpath(os.path.join(dp, d), root)), "d"))
        for f in fn:
            out.append((norm(os.path.relpath(os.path.join(dp, f), root)), "f"))
    return sorted(out)


def dataset_state(path, tmpbase):
    """logical content of what is left on disk, read with plain (healthy) tools"""
    import pyarrow.parquet as pq
    st = {"tree": tree(path), "tmp": tree(tmpbase), "parts": {}, "bounds": None}
    for rel, k in st["tree"]:
        if k == "f" and rel.endswith(".parquet"):
            try:
                t = pq.read_table(os.path.join(path, rel)).to_pandas()
                st["parts"][rel] = [list(map(int, t.index.tolist())), [int(v) for v in t["val"].tolist()]]
            except Exception as ex:
                st["parts"][rel] = f"unreadable: {type(ex).__name__}"
    cm = os.path.join(path, "_common_metadata")
    if os.path.isfile(cm):
        try:
            md = pq.read_metadata(cm).metadata
            st["bounds"] = json.loads(md[b"spatialpandas"].decode())
        except Exception as ex:
            st["bounds"] = f"unreadable: {type(ex).__name__}"
    md = os.path.join(path, "_metadata")
    if os.path.isfile(md):
        try:
            st["metadata_rows"] = pq.read_metadata(md).num_rows
        except Exception as ex:
            st["metadata_rows"] = f"unreadable: {type(ex).__name__}"
    return st


def run_pack(work, cfgname, faults, keep=False, healthy_repeat=False):
    """one execution of the real function; returns an observation dict"""
    import dask
    import dask.dataframe as dd
    from fsspec.implementations.local import LocalFileSystem
    mode, variant, npk, overwrite = CONFIGS[cfgname][:4]
    fs_cls = CopyRemoveFS if len(CONFIGS[cfgname]) > 4 else VerifFS
    if not healthy_repeat:
        shutil.rmtree(work, ignore_errors=True)
        os.makedirs(work)
    path = os.path.join(work, "ds.parq")
    tmpbase = os.path.join(work, "tmpbase")
    os.makedirs(tmpbase, exist_ok=True)
    fmt = None if mode == "default" else os.path.join(tmpbase, "t-{uuid}-{partition}")
    retry = dict(wait_exponential_multiplier=1, wait_exponential_max=1, stop_max_attempt_number=R)    # the keys of the library's own default
    # own the randomness: uuid4 becomes a deterministic counter (unique values are needed because
    # dask.delayed(pure=False) names its tasks with uuid4, and the synchronous scheduler orders ready tasks by name)
    counter = [0]
    _EXEC[0] += 1
    hi = (0x123 << 108) + (_EXEC[0] << 64)       # names never repeat between executions (dask-expr caches graphs by name)

    def det_uuid4():
        counter[0] += 1
        return uuid.UUID(int=((counter[0] & 0xffffffff) << 96) + hi + counter[0])    # every hex prefix differs from call to call
    old_uuid4 = uuid.uuid4
    uuid.uuid4 = det_uuid4
    try:
        with dask.config.set(scheduler="synchronous"):
            if overwrite and not healthy_repeat:
                old = dd.from_pandas(make_frame(None, old=True), npartitions=2)
                old.pack_partitions_to_parquet(path, filesystem=LocalFileSystem(), npartitions=5, p=6, _retry_args=retry)
            ddf = dd.from_pandas(make_frame(variant), npartitions=2)
            fs = LocalFileSystem() if healthy_repeat else fs_cls(faults=faults)
            if overwrite and not healthy_repeat:
                # the previous dataset was written a moment ago: its entries are the most recent changes a stale listing may miss
                for e in sorted(os.listdir(path)):
                    fs.mutations.append(("create", os.path.join(path, e), os.path.isdir(os.path.join(path, e))))
            obs = {"outcome": None, "exc": None}
            ncalls = 0
            try:
                ret = ddf.pack_partitions_to_parquet(path, filesystem=fs, npartitions=npk, p=6, tempdir_format=fmt,
                                                     _retry_args=retry, overwrite=(overwrite or healthy_repeat))
                obs["outcome"] = "returned"
                ncalls = len(fs.calls) if not healthy_repeat else 0      # what the harness reads afterwards is not part of the run
                try:
                    rc = ret.compute()
                    obs["returned_vals"] = sorted(int(v) for v in rc["val"].tolist())
                except Exception as ex:
                    obs["returned_vals"] = f"compute raised {type(ex).__name__}"
            except Exception as ex:
                obs["outcome"] = "raised"
                obs["exc"] = f"{type(ex).__name__}: {str(ex)[:160]}"
    finally:
        uuid.uuid4 = old_uuid4
    if not healthy_repeat:
        allcalls = [(m, norm(os.path.relpath(p, work)) if p else None) for _, m, p in fs.calls]
        obs["calls"] = allcalls[:ncalls] if obs["outcome"] == "returned" else allcalls
        obs["injected"] = [list(i) for i in fs.injected]
    obs["state"] = dataset_state(path, tmpbase)
    return obs


def kinds_for(method):
    ks = ["oserror", "fnf"]
    if method in LISTING:
        ks.append("stale")
    return ks


_ref_cache = {}


def reference(work, cfgname):
    if cfgname not in _ref_cache:
        a = run_pack(work, cfgname, [])
        b = run_pack(work, cfgname, [])
        if a["calls"] != b["calls"] or a["state"] != b["state"]:
            raise core.HarnessError(f"fault-free run of {cfgname} is not deterministic")
        if a["outcome"] != "returned":
            raise core.HarnessError(f"fault-free run of {cfgname} did not return: {a['exc']}")
        _ref_cache[cfgname] = a
    return _ref_cache[cfgname]


def judge(col, work, cfgname, faults, ref, obs):
    """apply the oracle to one faulty execution"""
    case = {"config": cfgname, "faults": [list(f) for f in faults]}
    first = faults[0]
    hit = ref["calls"][first[0]] if first[0] < len(ref["calls"]) else ("?", None)
    tags = dict(method=hit[0], kind=first[1], repeat=first[2], nfaults=len(faults), config=cfgname)
    col.count("evaluations")
    # determinism: the execution must follow the reference up to the first fault
    k0 = min(f[0] for f in faults)
    if obs["calls"][:k0] != ref["calls"][:k0]:
        raise core.HarnessError(f"{cfgname}: call sequence diverged before the first fault at {k0}")
    real = [i for i in obs["injected"] if len(i) == 4]
    if real:
        col.count("nontrivial")
    col.outcome(f"{obs['outcome']}:{first[1]}")
    if obs["outcome"] == "returned":
        if obs["state"] != ref["state"]:
            diff = {k: (obs["state"].get(k), ref["state"].get(k)) for k in ref["state"] if obs["state"].get(k) != ref["state"].get(k)}
            col.violation("returned_with_wrong_dataset", case,
                          f"{cfgname}: fault {faults} at call {hit} -> returned normally but the dataset differs from the fault-free "
                          f"one: {json.dumps(diff, default=str)[:600]}", **tags)
        return
    # raised: a repeat with overwrite=True on a healthy filesystem must give the reference dataset
    col.count("raised")
    rep = run_pack(work, cfgname, [], healthy_repeat=True)
    col.count("evaluations")
    if rep["outcome"] != "returned":
        col.violation("repeat_after_abort_raises", case,
                      f"{cfgname}: after abort by {faults} at call {hit} ({obs['exc']}), the repeat with overwrite=True raised {rep['exc']}", **tags)
    elif {k: v for k, v in rep["state"].items() if k != "tmp"} != {k: v for k, v in ref["state"].items() if k != "tmp"} \
            or not set(map(tuple, rep["state"]["tmp"])) <= set(map(tuple, obs["state"]["tmp"])):
        # (temporary directories left OUTSIDE the dataset by the aborted run carry that run's uuid and cannot be known
        #  to the repeat; the repeat itself must not add any)
        diff = {k: (rep["state"].get(k), ref["state"].get(k)) for k in ref["state"] if rep["state"].get(k) != ref["state"].get(k)}
        col.violation("repeat_after_abort_differs", case,
                      f"{cfgname}: after abort by {faults} at call {hit}, the repeat with overwrite=True left {json.dumps(diff, default=str)[:600]}",
                      **tags)


def single_fault_variants(method, k, quick):
    out = []
    for kind in kinds_for(method):
        out.append([(k, kind, 1)])
        if kind == "oserror" or not quick:
            out.append([(k, kind, R - 1)])       # repeated on every retry but the last: still within budget
            out.append([(k, kind, R)])           # budget exhausted: the run aborts at this crash point
    return out


def run(ctx):
    scratch = ctx.scratch()
    T = ctx.thorough
    cfgs = list(CONFIGS) if T else ["default-full", "default-empty", "external-full", "external-empty-overwrite", "default-empty-copymove"]
    if not T and ctx.seed % 2:
        cfgs = ["default-full-overwrite", "default-empty", "external-full", "external-empty", "external-empty-copymove"]
    # warm kernels
    make_frame("distinct")["pts"].hilbert_distance(p=6)
    work0 = os.path.join(scratch, "ref")
    refs = {c: reference(work0, c) for c in cfgs}
    items = []
    for c in cfgs:
        K = len(refs[c]["calls"])
        for k in range(K):
            items.append((c, k))
    pair_cfg = "default-full"
    pair_items = []
    if T:
        K = len(refs[pair_cfg]["calls"])
        pair_items = [(pair_cfg, k) for k in range(K)]
    NCH = 64

    def work(col, ci):
        w = os.path.join(scratch, f"w{ci}")
        for j in range(ci, len(items), NCH):
            c, k = items[j]
            ref = refs[c]
            method = ref["calls"][k][0]
            for faults in single_fault_variants(method, k, not T):
                obs = run_pack(w, c, faults)
                judge(col, w, c, faults, ref, obs)
        # pairs of faults (thorough): every second position after every first position, extended from the
        # execution that already contains the first fault
        for j in range(ci, len(pair_items), NCH):
            c, k1 = pair_items[j]
            ref = refs[c]
            for kind1 in kinds_for(ref["calls"][k1][0]):
                f1 = (k1, kind1, 1)
                obs1 = run_pack(w, c, [f1])
                calls1 = obs1["calls"]
                for k2 in range(k1 + 1, len(calls1)):
                    for kind2 in kinds_for(calls1[k2][0]):
                        faults = [f1, (k2, kind2, 1)]
                        obs = run_pack(w, c, faults)
                        if obs["calls"][:k2] != calls1[:k2]:
                            raise core.HarnessError("pair exploration: prefix diverged")
                        judge(col, w, c, faults, ref, obs)
        shutil.rmtree(w, ignore_errors=True)

    core.pmap(ctx, work, NCH, timeout=4 * 3600)
    ctx.coverage_extra["configs"] = {c: {"filesystem_calls": len(refs[c]["calls"]),
                                         "listing_calls": sum(1 for m, _ in refs[c]["calls"] if m in LISTING)} for c in cfgs}
    ctx.coverage_extra["fault_bound"] = 2 if T else 1
    ctx.coverage_extra["retry_budget"] = R
    ctx.col.sample({"config": cfgs[0], "faults": [[17, "oserror", 1]], "call": list(refs[cfgs[0]]["calls"][17])})
    ctx.col.sample({"config": cfgs[0], "calls_head": [list(c) for c in refs[cfgs[0]]["calls"][:12]]})
    ctx.rule = ("for each configuration every position k of the fault-free call sequence x every applicable fault kind x "
                "{once, repeated R-1 times, repeated R times}; thorough adds every pair (k1<k2) on the smallest configuration, "
                "positions of the second fault taken from the execution that contains the first. Non-trivial = executions in "
                "which an injected fault really changed an answer (a stale listing that equals the true one is a no-op).")
    ctx.assumptions = ["faults happen before the call takes effect; stale listing = effect of the most recent mutation below the "
                       "directory undone", "Dask runs synchronously and uuid4 is pinned so the call sequence is deterministic "
                       "(asserted: two fault-free runs agree, every faulty run follows the reference up to its first fault)",
                       "discrepancies visible only in the returned lazy frame (stale final listing) are not violations"]


def replay(ctx, case):
    col = core.Collector()
    scratch = ctx.scratch()
    ref = reference(os.path.join(scratch, "ref"), case["config"])
    faults = [tuple(f) for f in case["faults"]]
    w = os.path.join(scratch, "w")
    obs = run_pack(w, case["config"], faults)
    judge(col, w, case["config"], faults, ref, obs)
    return col.violations
