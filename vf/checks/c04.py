"""C04 -- .cx selects exactly the intersecting rows, with or without a spatial index.

E2: BFS over histories of {build_sindex(page_size, p), iloc slices, boolean filter, take, copy,
pickle, container change array -> GeoSeries -> GeoDataFrame} from base arrays of every kind with
0..4 rows (missing, empty, duplicates).  Invariant in every state: for every query of the query
product (lattice boxes x present/omitted/reversed slice ends) obj.cx[...] returns exactly the rows
the exact C01 oracle selects, in original order, with original labels and other columns untouched.
"""
import itertools
import pickle

import numpy as np

from .. import bfs, core
from .. import lattice as L
from .. import oracle as O

LEVEL = "model_checking"
G = 2

SQ = ((0, 0), (2, 0), (2, 2), (0, 2), (0, 0))
TRI = ((2, 2), (4, 2), (4, 4), (2, 2))
FRAME = (((0, 0), (4, 0), (4, 4), (0, 4), (0, 0)), ((1, 1), (1, 3), (3, 3), (3, 1), (1, 1)))   # hole needs odd coords

POOL = {
    "point": [(0, 0), (2, 4), (4, 2), (2, 2)],
    "multipoint": [((0, 0), (4, 4)), ((2, 0),), ((0, 4), (2, 2), (4, 0)), ((4, 4),)],
    "line": [((0, 0), (4, 4)), ((0, 4), (0, 2), (2, 2)), ((4, 0), (4, 2)), ((2, 4),)],
    "ring": [SQ, TRI, ((0, 4), (2, 4), (0, 2), (0, 4)), ((4, 0), (4, 2), (2, 0), (4, 0))],
    "multiline": [(((0, 0), (2, 2)), ((4, 4), (4, 2))), (((0, 4), (4, 0)),), (((2, 0), (2, 0)), ((0, 2), (0, 4))), (((4, 4), (2, 4)),)],
    "polygon": [(SQ,), (TRI,), FRAME, (((0, 4), (2, 4), (0, 2), (0, 4)),)],
    "multipolygon": [((SQ,), (TRI,)), (FRAME,), ((TRI,),), ((((0, 4), (2, 4), (0, 2), (0, 4)),), (((4, 0), (4, 2), (2, 0), (4, 0)),))],
}


def base_rows(kind):
    """base row lists (element ids into POOL[kind]; 'M' missing, 'E' empty)"""
    return [
        [0, "M", 1, 0, 2],          # duplicate + missing
        ["E", 3, 1],                # empty first
        [2],                        # single row
        [],                         # zero rows
        ["M", "E"],                 # only inert rows
        [1, 2, 3, 0],               # all valid
    ]


def elem_of(kind, rid):
    if rid == "M":
        return None
    if rid == "E":
        return ()
    return POOL[kind][rid]


# ------------------------------------------------------------------------------------------------
# queries
# ------------------------------------------------------------------------------------------------
BIG = 10 ** 6


def query_product(thorough):
    """list of (xs_start, xs_stop, ys_start, ys_stop) with None = omitted"""
    ends = [-1, 1, 2, 4, 5] if not thorough else [-1, 0, 1, 2, 3, 4, 5]
    iv = [(a, b) for a in ends for b in ends if a < b]
    qs = []
    for (x0, x1) in iv:
        for (y0, y1) in iv:
            qs.append((x0, x1, y0, y1))
    rep = [(1, 3, 1, 3), (-1, 2, 2, 5), (0, 4, 0, 4), (2, 5, -1, 1), (3, 4, 3, 4), (-1, 0, -1, 0), (1, 2, 0, 5),
           (0, 1, 3, 4), (2, 3, 2, 3), (-1, 5, 1, 2)]
    for q in rep:
        for omit in itertools.product((0, 1), repeat=4):
            if not any(omit):
                continue
            qs.append(tuple(None if o else v for v, o in zip(q, omit)))
        x0, x1, y0, y1 = q
        qs.append((x1, x0, y0, y1))
        qs.append((x0, x1, y1, y0))
        qs.append((x1, x0, y1, y0))
        qs.append((x1, None, y1, y0))
    # slice ends a tiny dyadic step off the lattice lines (exact in float64, not in narrower types)
    from fractions import Fraction
    e = Fraction(1, 1024)
    for q in rep[:6]:
        x0, x1, y0, y1 = q
        qs.append((x0 + e, x1 - e, y0 + e, y1 - e))
        qs.append((x0 - e, x1 + e, y0 - e, y1 + e))
        qs.append((x0 + e, None, None, y1 - e))
    # explicit infinite slice ends (half planes, strips, the whole plane)
    inf = float("inf")
    for q in rep[:5]:
        x0, x1, y0, y1 = q
        qs += [(x0, inf, y0, y1), (-inf, x1, -inf, inf), (-inf, inf, y0, y1), (inf, x0, y1, -inf), (-inf, inf, -inf, inf),
               (x0, inf, None, y1)]
    return qs


def effective_box(q, ext):
    """model of the documented semantics: omitted end = data extent, reversed ends swapped"""
    xs0, xs1, ys0, ys1 = q
    x0 = ext[0] if xs0 is None else xs0
    x1 = ext[2] if xs1 is None else xs1
    y0 = ext[1] if ys0 is None else ys0
    y1 = ext[3] if ys1 is None else ys1
    if any(v is None for v in (x0, x1, y0, y1)):
        return None          # no finite data and an omitted end
    if x1 < x0:
        x0, x1 = x1, x0
    if y1 < y0:
        y0, y1 = y1, y0
    return (x0, y0, x1, y1)


def extent(kind, rows):
    xs, ys = [], []
    for rid, _, _ in rows:
        e = elem_of(kind, rid)
        if e is None or e == ():
            continue
        for x, y in O.vertices(kind, e):
            xs.append(x)
            ys.append(y)
    if not xs:
        return (None, None, None, None)
    return (min(xs), min(ys), max(xs), max(ys))


# ------------------------------------------------------------------------------------------------
# real objects and model
# ------------------------------------------------------------------------------------------------
class State:
    """obj: the real object; cont in {array, series, frame}; rows: list of (rid, label, extra)"""

    def __init__(self, obj, cont, rows):
        self.obj, self.cont, self.rows = obj, cont, rows


def geom_array(st):
    if st.cont == "array":
        return st.obj
    if st.cont == "series":
        return st.obj.array
    return st.obj.geometry.array


def sindex_state(st):
    a = geom_array(st)
    si = getattr(a, "_sindex", None)
    return None if si is None else int(si._page_size)


def ops_menu(st, depth):
    n = len(st.rows)
    ops = [("sindex", ps, p) for ps in (1, 2, 3, 512) for p in (1, 10)]
    ops += [("iloc", 1, None, None), ("iloc", None, -1, None), ("iloc", None, None, 2), ("iloc", None, None, -1)]
    if n:
        ops += [("mask", tuple(i % 2 == 0 for i in range(n))), ("mask", tuple(i < (n + 1) // 2 for i in range(n))),
                ("take", tuple(range(n - 1, -1, -1))), ("take", (0, 0, n - 1))]
    ops += [("copy",), ("pickle",), ("used_pickle",), ("used_deepcopy",)]
    if st.cont == "array":
        ops += [("to_series",)]
    if st.cont == "series":
        ops += [("to_frame",)]
    return ops


def apply_model(rows, op):
    t = op[0]
    if t in ("sindex", "copy", "pickle", "used_pickle", "used_deepcopy", "to_series", "to_frame"):
        return list(rows)
    if t == "iloc":
        return rows[slice(op[1], op[2], op[3])]
    if t == "mask":
        return [r for r, b in zip(rows, op[1]) if b]
    if t == "take":
        return [rows[i] for i in op[1]]
    raise ValueError(op)


def apply_real(st, op):
    import pandas as pd
    from spatialpandas import GeoDataFrame, GeoSeries
    t = op[0]
    obj = st.obj
    cont = st.cont
    if t == "sindex":
        obj.build_sindex(page_size=op[1], p=op[2])
        return obj, cont
    if t == "iloc":
        sl = slice(op[1], op[2], op[3])
        return (obj[sl] if cont == "array" else obj.iloc[sl]), cont
    if t == "mask":
        m = np.array(op[1], dtype=bool)
        return (obj[m] if cont == "array" else obj[m]), cont
    if t == "take":
        idx = list(op[1])
        return (obj.take(idx) if cont == "array" else obj.iloc[idx]), cont
    if t == "copy":
        return obj.copy(), cont
    if t == "pickle":
        return pickle.loads(pickle.dumps(obj)), cont
    if t in ("used_pickle", "used_deepcopy"):
        # the object has answered a query (whatever index it carries was used, lazily completed state exists) before it is copied
        obj.cx[-1000.0:1000.0, -1000.0:1000.0]
        if t == "used_pickle":
            return pickle.loads(pickle.dumps(obj)), cont
        import copy
        return copy.deepcopy(obj), cont
    if t == "to_series":
        labels = [r[1] for r in st.rows]
        return GeoSeries(obj, index=pd.Index(labels, dtype=object), name="geom"), "series"
    if t == "to_frame":
        extra = [r[2] for r in st.rows]
        df = GeoDataFrame({"val": pd.Series(extra, index=obj.index, dtype="int64"), "geom": obj,
                           "txt": pd.Series([f"t{v}" for v in extra], index=obj.index, dtype=object)})
        return df, "frame"
    raise ValueError(op)


def observed_rows(st, res, kind, base_py_of):
    """normalise a cx result to a list of (element pylist, label, extra)"""
    if st.cont == "array":
        return [(v, None, None) for v in res.data.to_pylist()]
    if st.cont == "series":
        return [(v, l, None) for v, l in zip(res.array.data.to_pylist(), list(res.index))]
    return [(v, l, (int(a), b)) for v, l, a, b in zip(res["geom"].array.data.to_pylist(), list(res.index),
                                                       res["val"].tolist(), res["txt"].tolist())]


def make_check(col, kind, subtype, T, thorough):
    queries = query_product(thorough)
    pyl = {}
    for rid in list(range(len(POOL[kind]))) + ["M", "E"]:
        if kind == "point" and rid == "E" and not subtype.startswith("float"):
            continue
        pyl[rid] = L.make_array(kind, [elem_of(kind, rid)], subtype, T).data.to_pylist()[0]
    cache = {}

    def expected_for(rows, q):
        ext = extent(kind, rows)
        box = effective_box(q, ext)
        if box is None:
            return "empty"
        box = tuple(BIG if v == float("inf") else (-BIG if v == float("-inf") else v) for v in box)   # beyond all lattice data
        if kind not in ("point", "multipoint") and (box[0] == box[2] or box[1] == box[3]):
            return None          # outside the guarantee (degenerate box for line/polygon kinds)
        out = []
        for r in rows:
            e = elem_of(kind, r[0])
            key = (r[0], box)
            if key not in cache:
                cache[key] = O.elem_hits_box_scalar(kind, e, box)
            if cache[key]:
                out.append(r)
        return out

    def want_tuple(st, r):
        if st.cont == "array":
            return (pyl[r[0]], None, None)
        if st.cont == "series":
            return (pyl[r[0]], r[1], None)
        return (pyl[r[0]], r[1], (r[2], f"t{r[2]}"))

    def check_query(st, q, hist, site_prefix=""):
        col.count("evaluations")
        exp = expected_for(st.rows, q)
        if exp is None:
            col.count("skipped_degenerate")
            return
        if exp == "empty":
            exp = []
        def tq(v, t):
            return None if v is None else T[0] * float(v) + t
        xs = slice(tq(q[0], T[1]), tq(q[1], T[1]))
        ys = slice(tq(q[2], T[2]), tq(q[3], T[2]))
        si = sindex_state(st)
        case = {"kind": kind, "subtype": subtype, "T": list(T), "base": [r[0] for r in hist_base(hist)],
                "history": [list(o) for o in hist_ops(hist)], "query": [None if v is None else float(v) for v in q]}
        try:
            res = st.obj.cx[xs, ys]
        except Exception as ex:
            col.violation(f"{kind}.cx.raises", case, f"cx{q} on {st.cont} rows {[r[0] for r in st.rows]} sindex={si}: "
                          f"{type(ex).__name__}: {str(ex)[:200]}", cont=st.cont, sindex=si is not None)
            return
        typ_ok = {"array": type(geom_array(st)).__name__, "series": "GeoSeries", "frame": "GeoDataFrame"}[st.cont]
        if type(res).__name__ != typ_ok:
            col.violation(f"{kind}.cx.type", case, f"cx{q} on {st.cont} rows {[r[0] for r in st.rows]} sindex={si}: result type "
                          f"{type(res).__name__} expected {typ_ok}", cont=st.cont)
            return
        got = observed_rows(st, res, kind, pyl)
        want = [want_tuple(st, r) for r in exp]
        if si is not None:
            col.count("index_path_evaluations")
        if 0 < len(exp) < len([r for r in st.rows if r[0] not in ("M", "E")]):
            col.count("nontrivial")
        if got != want:
            col.violation(f"{kind}.cx", case,
                          f"cx{q} on {st.cont} rows {[r[0] for r in st.rows]} sindex={si}: got {[g[1] if g[1] is not None else g[0] for g in got]} "
                          f"expected {[w[1] if w[1] is not None else w[0] for w in want]}", cont=st.cont, sindex=si is not None)

    def full_invariant(st, hist):
        for q in queries:
            check_query(st, q, hist)
        col.outcome(f"{st.cont}:sindex={sindex_state(st) is not None}")

    return check_query, full_invariant


def hist_base(hist):
    return hist[0][1] if hist else []


def hist_ops(hist):
    return [h for h in hist[1:]] if hist else []


def explore(col, kind, subtype, T, base_ids, depth, thorough):
    check_query, full_invariant = make_check(col, kind, subtype, T, thorough)
    labels = ["a", "b", "a", "c", "d", "e"]
    rows0 = [(rid, labels[i], 10 + i) for i, rid in enumerate(base_ids)]

    def build_root():
        arr = L.make_array(kind, [elem_of(kind, r[0]) for r in rows0], subtype, T)
        return State(arr, "array", rows0)

    root_hist = [("base", rows0)]

    def key(st, _m):
        a = geom_array(st)
        return (tuple(st.rows), st.cont, sindex_state(st), a.data.offset)

    def ops_for(st, _m, d):
        return ops_menu(st, d)

    def apply_op(st, _m, op, hist):
        # rebuild the predecessor by replaying its history on a fresh object, so that an in-place
        # operation (build_sindex) never leaks into sibling states
        cur = build_root()
        for o in hist + [op]:
            try:
                nobj, ncont = apply_real(cur, o)
            except Exception as ex:
                col.violation(f"{kind}.op.raises", {"kind": kind, "subtype": subtype, "T": list(T), "base": list(base_ids),
                                                    "history": [list(x) for x in hist + [op]], "query": None},
                              f"{o} raised {type(ex).__name__}: {str(ex)[:200]}")
                return None
            cur = State(nobj, ncont, apply_model(cur.rows, o))
        return cur, None

    def on_transition(st, _m, hist):
        check_query(st, (None, None, None, None), [root_hist[0]] + hist)

    def on_new_state(st, _m, hist):
        full_invariant(st, [root_hist[0]] + hist)

    stats = bfs.bfs([(build_root(), None)], ops_for, apply_op, key, on_transition, on_new_state, depth)
    col.count("states", stats.states)
    col.count("transitions", stats.transitions)
    col.sample({"kind": kind, "base_rows": list(base_ids), "history": [["sindex", 2, 10], ["iloc", 1, None, None]],
                "query": [None, 3, 4, 1]})


def run(ctx):
    T_ = ctx.thorough
    depth = 3 if T_ else 2
    units = []
    for kind in O.KINDS:
        for bi, base in enumerate(base_rows(kind)):
            st = L.SUBTYPES[(bi + O.KINDS.index(kind) + ctx.seed) % len(L.SUBTYPES)] if base else "float64"
            if kind == "point" and "E" in base and not st.startswith("float"):
                st = "float32"
            units.append((kind, st, tuple(base)))
    # warm up kernels
    for kind in O.KINDS:
        for st in L.SUBTYPES:
            a = L.make_array(kind, [elem_of(kind, 0), None], st)
            a.cx[0:1, 0:1]
            a.build_sindex(page_size=1)
            a.cx[0:1, 0:1]

    def work(col, i):
        kind, st, base = units[i]
        T = L.transform_for(st, ctx.seed, salt=i)
        explore(col, kind, st, T, base, depth, T_)

    units.sort(key=lambda u: -len(u[2]))
    core.pmap(ctx, work, len(units))
    c = ctx.col.counters
    ctx.coverage_extra.update({
        "states": int(c.get("states", 0)), "transitions": int(c.get("transitions", 0)),
        "traces_validated_against_impl": int(c.get("transitions", 0)),
        "depth_completed": depth, "queries_per_state": len(query_product(T_)),
        "index_path_evaluations": int(c.get("index_path_evaluations", 0)),
        "explanation": "states are rebuilt by replaying their history on a fresh real object; key = (rows, container, "
                       "sindex page size or None, pyarrow offset)",
    })
    ctx.rule = ("BFS over histories of build_sindex / slicing / filtering / take / copy / pickle / container changes "
                "from 6 base row lists per kind; in every new state every query of the product (lattice boxes x "
                "omitted/reversed ends) is compared with the exact oracle. Non-trivial = the query selects a proper "
                "non-empty subset of the valid rows.")
    ctx.assumptions = ["queries whose effective box is degenerate are skipped for line/polygon kinds (statement)",
                       "scalar (non-slice) keys are not used"]


def replay(ctx, case):
    col = core.Collector()
    kind, st, T = case["kind"], case["subtype"], tuple(case["T"])
    base_ids = case["base"]
    check_query, full_invariant = make_check(col, kind, st, T, False)
    labels = ["a", "b", "a", "c", "d", "e"]
    rows0 = [(rid, labels[i], 10 + i) for i, rid in enumerate(base_ids)]
    cur = State(L.make_array(kind, [elem_of(kind, r[0]) for r in rows0], st, T), "array", rows0)
    hist = [("base", rows0)]
    for o in case["history"]:
        o = tuple(tuple(x) if isinstance(x, list) else x for x in o)
        nobj, ncont = apply_real(cur, o)
        cur = State(nobj, ncont, apply_model(cur.rows, o))
        hist.append(o)
    if case.get("query"):
        from fractions import Fraction
        check_query(cur, tuple(None if v is None else Fraction(v) for v in case["query"]), hist)
    else:
        full_invariant(cur, hist)
    return col.violations
