"""./check <ID> [--tier quick|thorough] [--replay file]"""
import argparse
import importlib
import json
import os
import sys
import traceback

from . import core


def main():
    ap = argparse.ArgumentParser()
    ap.add_argument("pid")
    ap.add_argument("--tier", default=os.environ.get("VERIF_TIER", "quick"),
                    choices=["quick", "thorough"])
    ap.add_argument("--replay")
    a = ap.parse_args()
    pid = a.pid.upper()
    seed = int(os.environ.get("VERIF_SEED", "0") or 0)
    try:
        core.bind_repo()
        mod = importlib.import_module(f"vf.checks.{pid.lower()}")
        ctx = core.Ctx(pid, a.tier, seed)
        try:
            if a.replay:
                rec = json.loads(open(a.replay).read())
                if rec.get("tags", {}).get("site") == "library_raised":
                    print("".join(rec["case"].get("traceback", [])))
                    print(f"[{pid}] this record is the traceback of an exception that escaped from the library; "
                          f"run ./check {pid} to reproduce it")
                    return 1
                vs = mod.replay(ctx, rec["case"])
                for v in vs:
                    print(f"VIOLATION property={pid} replay={a.replay}")
                    print("  " + str(v)[:1000])
                print(f"[{pid}] replay: {'still violates' if vs else 'no violation'}")
                return 1 if vs else 0
            try:
                mod.run(ctx)
            except core.HarnessError:
                raise
            except Exception as ex:
                if not core.library_raised(ctx.col, ex, "outside the worker pool"):
                    raise
            return core.finish(ctx, mod.LEVEL)
        finally:
            ctx.cleanup()
    except core.HarnessError as e:
        print(f"HARNESS-ERROR property={pid}: {e}", file=sys.stderr)
        return 2
    except Exception:
        print(f"HARNESS-ERROR property={pid}:\n{traceback.format_exc()}", file=sys.stderr)
        return 2


if __name__ == "__main__":
    sys.exit(main())
