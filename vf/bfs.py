"""E2 -- explicit-state breadth-first search over operation histories of real objects.

A state is (live object, reference model, history).  The successor function applies one operation
of a finite menu to the real object and to the model; `key` canonicalises the property-relevant
part of the state (including physical layout where layout is exactly what must not matter);
`on_new_state` evaluates the full invariant once per distinct state, `on_transition` evaluates the
cheap per-step agreement on every transition.
"""
import collections


class Stats:
    def __init__(self):
        self.states = 0
        self.transitions = 0
        self.max_depth = 0
        self.by_depth = collections.Counter()


def bfs(roots, ops_for, apply_op, key, on_transition, on_new_state, max_depth, stats=None,
        expand_filter=None):
    """roots: list of (obj, model); ops_for(obj, model, depth) -> iterable of ops;
    apply_op(obj, model, op) -> (new_obj, new_model) or None when the op is terminal / errored
    (apply_op reports violations itself); key(obj, model) -> hashable."""
    stats = stats or Stats()
    seen = set()
    frontier = collections.deque()
    for obj, model in roots:
        k = key(obj, model)
        if k in seen:
            continue
        seen.add(k)
        stats.states += 1
        stats.by_depth[0] += 1
        on_new_state(obj, model, [])
        frontier.append((obj, model, []))
    while frontier:
        obj, model, hist = frontier.popleft()
        depth = len(hist)
        if depth >= max_depth:
            continue
        if expand_filter is not None and not expand_filter(obj, model, hist):
            continue
        for op in ops_for(obj, model, depth):
            stats.transitions += 1
            res = apply_op(obj, model, op, hist)
            if res is None:
                continue
            nobj, nmodel = res
            nh = hist + [op]
            on_transition(nobj, nmodel, nh)
            k = key(nobj, nmodel)
            if k in seen:
                continue
            seen.add(k)
            stats.states += 1
            stats.by_depth[len(nh)] += 1
            stats.max_depth = max(stats.max_depth, len(nh))
            on_new_state(nobj, nmodel, nh)
            frontier.append((nobj, nmodel, nh))
    return stats
