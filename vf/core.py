"""Shared runner for all checks: repo binding, fork pool, evidence, replays, known findings.

Every check module (vf/checks/cNN.py) exposes
    LEVEL      -- MANIFEST category ("exploration", "model_checking", "fault_enumeration")
    run(ctx)   -- explores, reports through ctx, returns nothing
    replay(ctx, case) -- re-executes one recorded case without the explorer; returns list of
                         violation dicts (empty when the case no longer violates)
"""
import collections
import json
import multiprocessing as mp
import os
import shutil
import sys
import tempfile
import time
import traceback
from pathlib import Path

VERIF = Path(__file__).resolve().parent.parent
REPO = os.environ.get("VERIF_REPO", "/repo")
# VERIF_OUT redirects evidence/ and replays/ (used when checks are pointed at a mutated scratch tree so
# that the committed evidence is never overwritten by a mutant run)
OUT = Path(os.environ.get("VERIF_OUT", str(VERIF)))
NPROC = int(os.environ.get("VERIF_NPROC", "16"))
MAX_VIOLATIONS_KEPT = 40          # per worker
MAX_REPLAYS_WRITTEN = 8


class HarnessError(Exception):
    """Nondeterminism, missing tool, broken harness: exit 2, never a VIOLATION."""


def bind_repo():
    """Make `import spatialpandas` resolve to the tree under verification and prove it."""
    repo = os.path.realpath(REPO)
    if sys.path[0] != repo:
        sys.path.insert(0, repo)
    import spatialpandas
    got = os.path.realpath(spatialpandas.__file__)
    if not got.startswith(repo + os.sep):
        raise HarnessError(f"spatialpandas imported from {got}, expected under {repo}")
    return repo


# ------------------------------------------------------------------------------------------------
# per-process collector
# ------------------------------------------------------------------------------------------------
class Collector:
    def __init__(self):
        self.counters = collections.Counter()
        self.violations = []
        self.nviol = 0
        self.samples = []
        self.outcomes = collections.Counter()
        self.info = []

    def count(self, key, n=1):
        self.counters[key] += n

    def outcome(self, key, n=1):
        """distinct observed outcomes (vacuity guard)"""
        self.outcomes[key] += n

    def sample(self, case, limit=3):
        if len(self.samples) < limit:
            self.samples.append(case)

    def note(self, text):
        if len(self.info) < 20:
            self.info.append(text)

    def violation(self, site, case, detail, **tags):
        """site: short stable identifier of the failing call site / clause
        case: JSON-able dict sufficient for replay()
        detail: observed vs expected"""
        self.nviol += 1
        self.counters["violations"] += 1
        self.counters["viol@" + site] += 1
        if self.counters["viol@" + site] <= 6 and len(self.violations) < MAX_VIOLATIONS_KEPT:
            t = {"site": site}
            t.update({k: str(v) for k, v in tags.items()})
            self.violations.append({"tags": t, "case": case, "detail": str(detail)[:2000]})

    def merge(self, other):
        self.counters.update(other["counters"])
        self.outcomes.update(other["outcomes"])
        self.nviol += other["nviol"]
        for v in other["violations"]:
            if len(self.violations) < MAX_VIOLATIONS_KEPT * 4:
                self.violations.append(v)
        for s in other["samples"]:
            self.sample(s, limit=5)
        for s in other["info"]:
            self.note(s)

    def dump(self):
        return {"counters": dict(self.counters), "outcomes": dict(self.outcomes),
                "nviol": self.nviol, "violations": self.violations, "samples": self.samples,
                "info": self.info}


# ------------------------------------------------------------------------------------------------
# fork pool (workqueue threading layer; kernels warmed in the parent before the fork)
# ------------------------------------------------------------------------------------------------
_WORK = None


def _call(i):
    import numba
    try:
        numba.set_num_threads(1)
    except Exception:
        pass
    col = Collector()
    cov = start_line_coverage()
    try:
        _WORK(col, i)
    except HarnessError:
        raise
    except Exception as ex:
        if not library_raised(col, ex, f"unit {i}"):
            raise HarnessError("worker %d crashed:\n%s" % (i, traceback.format_exc()))
    finally:
        if cov is not None:
            cov.stop()
            cov.save()
    return col.dump()


def library_raised(col, ex, where):
    """An exception that escaped from the library under check at a place where the harness does not expect one (on the
    unchanged tree none does): the library fails on an input of the property's domain -> a violation, not a harness
    error.  Returns False when no frame of the traceback lies in the library (then it IS a harness error)."""
    repo = os.path.join(os.environ.get("VERIF_REPO", "/repo"), "spatialpandas") + os.sep
    tb = traceback.extract_tb(ex.__traceback__)
    lib = [f for f in tb if f.filename.startswith(repo)]
    if not lib:
        return False
    harness = [f for f in tb if os.sep + "vf" + os.sep in f.filename]
    h = harness[-1] if harness else tb[0]
    f = lib[-1]
    col.violation("library_raised", {"where": where, "harness_call": f"{os.path.basename(h.filename)}:{h.lineno} {h.line}",
                                     "traceback": traceback.format_exception(type(ex), ex, ex.__traceback__)[-12:]},
                  f"{type(ex).__name__}: {str(ex)[:200]} -- raised in {f.name} ({f.filename[len(repo):]}:{f.lineno}) "
                  f"during {os.path.basename(h.filename)}:{h.lineno} `{h.line}`", err=type(ex).__name__)
    return True


def start_line_coverage():
    """development aid (tools/blindspots.sh): with VERIF_COV=<dir> every worker task records which lines of the
    library under check it executed; never set by the registered commands"""
    covdir = os.environ.get("VERIF_COV")
    if not covdir:
        return None
    import coverage
    cov = coverage.Coverage(data_file=os.path.join(covdir, ".coverage"), data_suffix=True, branch=True,
                            include=[os.path.join(os.environ.get("VERIF_REPO", "/repo"), "spatialpandas", "*")])
    cov.start()
    return cov


def pmap(ctx, work, nchunks, timeout=3600, nproc=None):
    """Run work(col, i) for i in range(nchunks) in forked workers; merge into ctx.col.

    Chunk -> case assignment is a function of i only, so the union is the full space whatever
    the worker count."""
    global _WORK
    nproc = nproc or NPROC
    if timeout == 3600 and ctx.thorough:
        timeout = 4 * 3600          # the deep tier may share the machine with other runs
    if nproc <= 1 or nchunks <= 1 or os.environ.get("VERIF_SERIAL"):
        for i in range(nchunks):
            c = Collector()
            try:
                work(c, i)
            except HarnessError:
                raise
            except Exception as ex:
                if not library_raised(c, ex, f"unit {i}"):
                    raise
            ctx.col.merge(c.dump())
        return
    _WORK = work
    mpctx = mp.get_context("fork")
    with mpctx.Pool(min(nproc, nchunks)) as pool:
        res = pool.map_async(_call, range(nchunks), chunksize=1)
        try:
            outs = res.get(timeout=timeout)
        except mp.TimeoutError:
            pool.terminate()
            raise HarnessError("worker pool timed out after %ss" % timeout)
    for o in outs:
        ctx.col.merge(o)


# ------------------------------------------------------------------------------------------------
# run context
# ------------------------------------------------------------------------------------------------
class Ctx:
    def __init__(self, pid, tier, seed):
        self.pid = pid
        self.tier = tier
        self.seed = seed
        self.col = Collector()
        self.t0 = time.time()
        self.coverage_extra = {}
        self.assumptions = []
        self.rule = ""
        self.exhaustive = True
        self._scratch = None

    @property
    def thorough(self):
        return self.tier == "thorough"

    def scratch(self):
        """fresh scratch directory outside /repo and /verif, removed at exit"""
        if self._scratch is None:
            base = os.environ.get("VERIF_SCRATCH_BASE", tempfile.gettempdir())
            self._scratch = tempfile.mkdtemp(prefix=f"vf-{self.pid}-", dir=base)
        return self._scratch

    def cleanup(self):
        if self._scratch and os.path.isdir(self._scratch):
            shutil.rmtree(self._scratch, ignore_errors=True)


def load_known():
    p = VERIF / "known_findings.json"
    if not p.exists():
        return []
    return json.loads(p.read_text()).get("findings", [])


def match_finding(find, pid, tags):
    if find.get("property") != pid or find.get("status") != "open":
        return False
    for k, v in find.get("match", {}).items():
        if tags.get(k) != v:
            return False
    return True


def write_evidence(ctx, level, nviol_unlisted):
    c = ctx.col.counters
    cov = {
        "evaluations": int(c.get("evaluations", 0)),
        "distinct_nontrivial": int(c.get("nontrivial", 0)),
        "rule": ctx.rule,
        "samples": ctx.col.samples or [],
        "exhaustive": bool(ctx.exhaustive),
        "counters": {k: int(v) for k, v in sorted(c.items())},
        "distinct_outcomes": {k: int(v) for k, v in sorted(ctx.col.outcomes.items())},
    }
    if ctx.col.info:
        cov["informational"] = ctx.col.info
    cov.update(ctx.coverage_extra)
    ev = {
        "property_id": ctx.pid,
        "tier": ctx.tier,
        "seed": ctx.seed,
        "level": level,
        "coverage": cov,
        "assumptions": ctx.assumptions,
        "wall_s": round(time.time() - ctx.t0, 2),
        "violations": int(nviol_unlisted),
        "repo": os.path.realpath(REPO),
    }
    d = OUT / "evidence"
    d.mkdir(parents=True, exist_ok=True)
    tmp = d / f".{ctx.pid}.json.tmp"
    tmp.write_text(json.dumps(ev, indent=1, default=str))
    os.replace(tmp, d / f"{ctx.pid}.json")
    return ev


def finish(ctx, level):
    """Classify violations against known findings, write replays + evidence, return exit code."""
    known = load_known()
    unlisted = []
    listed = collections.OrderedDict()
    for v in ctx.col.violations:
        hit = None
        for f in known:
            if match_finding(f, ctx.pid, v["tags"]):
                hit = f
                break
        if hit is not None:
            listed.setdefault(hit["id"], (hit, v))
        else:
            unlisted.append(v)
    for fid, (f, v) in listed.items():
        print(f"KNOWN-FINDING: property={ctx.pid} {f['what']} [{fid}]")
    rdir = OUT / "replays" / ctx.pid
    seen_sites = set()
    nwritten = 0
    for v in unlisted:
        site = v["tags"]["site"]
        if site in seen_sites and nwritten >= 3:
            continue
        if nwritten >= MAX_REPLAYS_WRITTEN:
            break
        seen_sites.add(site)
        rdir.mkdir(parents=True, exist_ok=True)
        path = rdir / f"{ctx.tier}-{nwritten}.json"
        path.write_text(json.dumps({"property": ctx.pid, "tags": v["tags"], "case": v["case"],
                                    "detail": v["detail"]}, indent=1, default=str))
        print(f"VIOLATION property={ctx.pid} replay={path}")
        print(f"  site={site} detail={v['detail'][:400]}")
        nwritten += 1
    # total unlisted count: kept violations that are unlisted + (violations not kept are assumed
    # unlisted only if something unlisted was kept)
    n_unlisted = len(unlisted)
    ev = write_evidence(ctx, level, n_unlisted)
    c = ev["coverage"]
    print(f"[{ctx.pid}] tier={ctx.tier} seed={ctx.seed} evaluations={c['evaluations']} "
          f"nontrivial={c['distinct_nontrivial']} violations_total={ctx.col.nviol} "
          f"unlisted_kept={n_unlisted} wall={ev['wall_s']}s")
    return 1 if n_unlisted else 0
