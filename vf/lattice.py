"""Lattice shape families, exactness-preserving transforms and array construction.

Geometry coordinates are even integers 0..2G, query coordinates all integers -1..2G+1, so a box
edge / test point can be ON a vertex or edge (even) or strictly between lattice lines (odd).
"""
import itertools

import numpy as np

from .oracle import KINDS, POLY_KINDS, signed_area2_ring  # noqa: F401

SUBTYPES = ("float64", "float32", "int64", "int32", "int16")


# ------------------------------------------------------------------------------------------------
# exactness-preserving similarity transforms  v -> s*v + t   (same s on both axes)
# ------------------------------------------------------------------------------------------------
TRANSFORMS = {
    "float64": [(1, 0, 0), (0.25, 3, -5), (8, -1000, 77), (1024, 2 ** 24, -(2 ** 24)),
                (1, 2 ** 25 - 64, -(2 ** 25 - 64)), (0.25, -(2 ** 20), 2 ** 20)],
    # float32 values must be exactly representable (24-bit significand); the kernels compute on
    # differences (small) and promote to float64 for measures
    "float32": [(1, 0, 0), (0.25, 3, -5), (8, -100, 77), (1, 500, -500), (1, 2 ** 22, -(2 ** 22))],
    "int64": [(1, 0, 0), (8, -1000, 77), (1024, 2 ** 24, -(2 ** 24)), (1, 2 ** 25 - 64, -(2 ** 25 - 64))],
    "int32": [(1, 0, 0), (8, -1000, 77), (1024, 2 ** 24, -(2 ** 24)), (1, 2 ** 25 - 64, -(2 ** 25 - 64))],
    "int16": [(1, 0, 0), (8, -1000, 77), (1, 30000, -30000), (2, -20000, 15000)],
}


def transform_for(subtype, seed, salt=0):
    tl = TRANSFORMS[subtype]
    return tl[(seed + salt + SUBTYPES.index(subtype)) % len(tl)]


def tf(T, x, y):
    s, tx, ty = T
    return (s * x + tx, s * y + ty)


def tf_box(T, box):
    s, tx, ty = T
    x0, y0, x1, y1 = box
    return (s * x0 + tx, s * y0 + ty, s * x1 + tx, s * y1 + ty)


# ------------------------------------------------------------------------------------------------
# element -> nested python lists accepted by the array constructors
# ------------------------------------------------------------------------------------------------
def _flat_pts(pts, T):
    out = []
    for (x, y) in pts:
        a, b = tf(T, x, y)
        out.append(a)
        out.append(b)
    return out


def to_nested(kind, e, T=(1, 0, 0)):
    if e is None:
        return None
    if kind == "point":
        if e == ():
            return [float("nan"), float("nan")]
        return list(tf(T, *e))
    if kind in ("multipoint", "line", "ring"):
        return _flat_pts(e, T)
    if kind in ("multiline", "polygon"):
        return [_flat_pts(part, T) for part in e]
    if kind == "multipolygon":
        return [[_flat_pts(r, T) for r in poly] for poly in e]
    raise ValueError(kind)


def array_class(kind):
    from spatialpandas import geometry as g
    return {"point": g.PointArray, "multipoint": g.MultiPointArray, "line": g.LineArray,
            "ring": g.RingArray, "multiline": g.MultiLineArray, "polygon": g.PolygonArray,
            "multipolygon": g.MultiPolygonArray}[kind]


def scalar_class(kind):
    from spatialpandas import geometry as g
    return {"point": g.Point, "multipoint": g.MultiPoint, "line": g.Line, "ring": g.Ring,
            "multiline": g.MultiLine, "polygon": g.Polygon, "multipolygon": g.MultiPolygon}[kind]


def make_array(kind, elems, subtype="float64", T=(1, 0, 0)):
    cls = array_class(kind)
    data = [to_nested(kind, e, T) for e in elems]
    if kind == "point":
        if len(data) == 0:
            return cls(np.zeros((0, 2), dtype=subtype))
        if all(d is not None for d in data):
            return cls(np.array(data, dtype=subtype))
        return cls(data, dtype=subtype)
    return cls(data, dtype=subtype)


def make_scalar(kind, e, subtype="float64", T=(1, 0, 0)):
    """a scalar geometry obtained the way users get one: by indexing an array"""
    return make_array(kind, [e], subtype, T)[0]


# ------------------------------------------------------------------------------------------------
# basic lattice
# ------------------------------------------------------------------------------------------------
def lattice_points(G):
    return [(x, y) for x in range(0, 2 * G + 1, 2) for y in range(0, 2 * G + 1, 2)]


def query_values(G):
    return list(range(-1, 2 * G + 2))


def all_boxes(G, degenerate=False):
    """every box with integer corners in [-1, 2G+1]; positive area unless degenerate"""
    vals = query_values(G)
    out = []
    for x0 in vals:
        for x1 in vals:
            if x1 < x0 or (x1 == x0 and not degenerate):
                continue
            for y0 in vals:
                for y1 in vals:
                    if y1 < y0 or (y1 == y0 and not degenerate):
                        continue
                    out.append((x0, y0, x1, y1))
    return out


def boxes_arrays(boxes):
    b = np.array(boxes, dtype=np.int64).reshape(len(boxes), 4)
    return b[:, 0].copy(), b[:, 1].copy(), b[:, 2].copy(), b[:, 3].copy()


def all_query_points(G):
    vals = query_values(G)
    return [(x, y) for x in vals for y in vals]


# ------------------------------------------------------------------------------------------------
# families
# ------------------------------------------------------------------------------------------------
def fam_points(G):
    return lattice_points(G)


def fam_multipoints(G, kmax=3):
    pts = lattice_points(G)
    out = []
    for k in range(1, kmax + 1):
        out.extend(itertools.combinations(pts, k))
    # a multipoint with a repeated point, and one listed in reverse order
    out.append((pts[0], pts[0]))
    out.append((pts[-1], pts[0]))
    return out


def fam_lines(G, L=3):
    pts = lattice_points(G)
    out = []
    for k in range(1, L + 1):
        out.extend(itertools.product(pts, repeat=k))
    return out


def _orient(a, b, c):
    v = (b[0] - a[0]) * (c[1] - a[1]) - (b[1] - a[1]) * (c[0] - a[0])
    return (v > 0) - (v < 0)


def _on_seg(a, b, p):
    return (_orient(a, b, p) == 0 and min(a[0], b[0]) <= p[0] <= max(a[0], b[0])
            and min(a[1], b[1]) <= p[1] <= max(a[1], b[1]))


def _segs_meet(a, b, c, d):
    o1, o2, o3, o4 = _orient(a, b, c), _orient(a, b, d), _orient(c, d, a), _orient(c, d, b)
    if o1 != o2 and o3 != o4:
        return True
    return _on_seg(a, b, c) or _on_seg(a, b, d) or _on_seg(c, d, a) or _on_seg(c, d, b)


def is_simple_polygon(vs):
    """vs: k distinct points (open ring). simple = non-zero area, adjacent edges meet only in the
    shared vertex, other edges are disjoint"""
    k = len(vs)
    if k < 3 or len(set(vs)) != k:
        return False
    closed = list(vs) + [vs[0]]
    if signed_area2_ring(closed) == 0:
        return False
    edges = [(closed[i], closed[i + 1]) for i in range(k)]
    for i in range(k):
        for j in range(i + 1, k):
            a, b = edges[i]
            c, d = edges[j]
            adjacent = (j == i + 1) or (i == 0 and j == k - 1)
            if adjacent:
                if j == i + 1:
                    shared, p, q = b, a, d
                else:
                    shared, p, q = a, b, c
                # overlap beyond the shared vertex iff collinear and pointing the same way
                if _orient(shared, p, q) == 0:
                    dot = (p[0] - shared[0]) * (q[0] - shared[0]) + (p[1] - shared[1]) * (q[1] - shared[1])
                    if dot > 0:
                        return False
                if k == 3:
                    continue
            else:
                if _segs_meet(a, b, c, d):
                    return False
    return True


_simple_cache = {}


def fam_simple_rings(G, V=4):
    """every simple lattice polygon with <= V vertices in every rotation and both directions,
    as closed rings"""
    key = (G, V)
    if key not in _simple_cache:
        pts = lattice_points(G)
        out = []
        for k in range(3, V + 1):
            for vs in itertools.permutations(pts, k):
                if is_simple_polygon(vs):
                    out.append(tuple(vs) + (vs[0],))
        _simple_cache[key] = out
    return _simple_cache[key]


def fam_polygons_simple(G, V=4):
    return [(r,) for r in fam_simple_rings(G, V)]


def rect_ring(x0, y0, x1, y1, ccw=True, start=0):
    vs = [(x0, y0), (x1, y0), (x1, y1), (x0, y1)]
    if not ccw:
        vs = [vs[0]] + vs[:0:-1]
    vs = vs[start:] + vs[:start]
    return tuple(vs) + (vs[0],)


def poly_ring(vs, ccw=True, start=0):
    """vs listed counter-clockwise (open)"""
    vs = list(vs)
    if not ccw:
        vs = [vs[0]] + vs[:0:-1]
    vs = vs[start:] + vs[:start]
    return tuple(vs) + (vs[0],)


def _strictly_inside(ring, pt):
    from .oracle import points_in_region_evenodd, points_on_chains
    px = np.array([pt[0]], dtype=np.int64)
    py = np.array([pt[1]], dtype=np.int64)
    if points_on_chains([list(ring)], px, py)[0]:
        return False
    return bool(points_in_region_evenodd([list(ring)], px, py)[0])


def _rings_disjoint(r1, r2):
    e1 = list(zip(r1[:-1], r1[1:]))
    e2 = list(zip(r2[:-1], r2[1:]))
    return not any(_segs_meet(a, b, c, d) for a, b in e1 for c, d in e2)


def valid_polygon(poly):
    """shell and holes simple, holes strictly inside the shell, mutually disjoint and not nested,
    every hole wound opposite to the shell"""
    shell, holes = poly[0], poly[1:]
    if not is_simple_polygon(shell[:-1]):
        return False
    sa = signed_area2_ring(shell)
    for h in holes:
        if not is_simple_polygon(h[:-1]):
            return False
        if (signed_area2_ring(h) > 0) == (sa > 0):
            return False
        if not _rings_disjoint(shell, h):
            return False
        if not all(_strictly_inside(shell, v) for v in h[:-1]):
            return False
    for i in range(len(holes)):
        for j in range(i + 1, len(holes)):
            if not _rings_disjoint(holes[i], holes[j]):
                return False
            if _strictly_inside(holes[i], holes[j][0]) or _strictly_inside(holes[j], holes[i][0]):
                return False
    return True


def fam_polygons_holes(thorough=False):
    """polygons with 1..2 holes on the 6x6 lattice (coords 0..10): every candidate (shell, holes)
    combination below that passes valid_polygon(); holes wound opposite to the shell (both ways
    round), several start vertices"""
    shells = [[(0, 0), (10, 0), (10, 10), (0, 10)]]
    holes1 = [[(2, 2), (4, 2), (4, 4), (2, 4)], [(2, 2), (8, 2), (8, 8), (2, 8)],
              [(4, 2), (8, 2), (8, 6), (4, 6)], [(2, 2), (8, 2), (2, 8)], [(6, 6), (8, 6), (8, 8), (6, 8)]]
    hole_pairs = [([(2, 2), (4, 2), (4, 4), (2, 4)], [(6, 6), (8, 6), (8, 8), (6, 8)]),
                  ([(2, 2), (8, 2), (8, 4), (2, 4)], [(2, 6), (8, 6), (8, 8), (2, 8)]),
                  ([(2, 2), (4, 2), (4, 8), (2, 8)], [(6, 2), (8, 2), (8, 8)])]
    if thorough:
        shells += [[(0, 0), (10, 0), (0, 10)],                                  # triangle
                   [(0, 0), (10, 0), (10, 6), (6, 6), (6, 10), (0, 10)]]          # L-shape
        holes1 += [[(2, 2), (4, 2), (2, 4)], [(2, 4), (4, 2), (4, 4)], [(2, 2), (4, 2), (4, 6), (2, 6)],
                   [(2, 2), (8, 2), (8, 4), (2, 4)]]
    out = []
    for shell in shells:
        for ccw in (True, False):
            starts_s = range(len(shell)) if thorough else (0, 1)
            for ss in starts_s:
                sring = poly_ring(shell, ccw, ss)
                for h in holes1:
                    starts_h = range(len(h)) if thorough else (0, 2)
                    for hs in starts_h:
                        out.append((sring, poly_ring(h, not ccw, hs % len(h))))
                for ha, hb in hole_pairs:
                    out.append((sring, poly_ring(ha, not ccw, 0), poly_ring(hb, not ccw, 1)))
                    out.append((sring, poly_ring(hb, not ccw, 2), poly_ring(ha, not ccw, 0)))
    return [p for p in out if valid_polygon(p)]


def fam_multilines(G, thorough=False):
    """pairs (triples in thorough) from a reduced pool: touching, crossing, collinear, far apart,
    zero-length, single-vertex parts"""
    m = 2 * G
    pool = [((0, 0), (m, m)), ((0, m), (m, 0)), ((0, 0), (m, 0)), ((2, 0), (2, m)),
            ((0, 0), (0, 0)), ((m, m),), ((0, 2), (2, 2), (2, 0)), ((m, 0), (m, m)),
            ((0, 0), (2, 0)), ((2, 0), (m, 0)), ((0, m), (2, m), (2, 2))]
    out = [(a,) for a in pool]
    out += list(itertools.product(pool, repeat=2))
    if thorough:
        out += list(itertools.product(pool[:7], repeat=3))
    return out


def fam_multipolygons(thorough=False):
    """pairs/triples of non-overlapping polygons on the 0..10 lattice: far apart, touching in a
    vertex, touching along an edge, nested inside another part's hole; both windings"""
    def sq(x0, y0, x1, y1, ccw=True, start=0):
        return (rect_ring(x0, y0, x1, y1, ccw, start),)
    out = []
    for ccw in (True, False):
        A = sq(0, 0, 4, 4, ccw)
        B = sq(6, 6, 10, 10, ccw, 1)
        C = sq(4, 4, 8, 8, ccw, 2)          # touches A in the vertex (4,4)
        D = sq(4, 0, 8, 4, ccw, 3)          # touches A along the edge x=4
        E = (rect_ring(0, 0, 10, 10, ccw), rect_ring(2, 2, 8, 8, not ccw, 1))   # frame
        F = sq(4, 4, 6, 6, ccw)             # nested in E's hole
        Fo = sq(4, 4, 6, 6, not ccw, 2)     # nested, wound the other way
        T = (poly_ring([(6, 0), (10, 0), (10, 4)], ccw),)
        Bo = sq(6, 6, 10, 10, not ccw, 1)   # same size as A, wound the other way: the signed areas of the parts cancel
        Do = sq(4, 0, 8, 4, not ccw, 3)
        out += [(A,), (E,), (A, B), (B, A), (A, C), (A, D), (D, A), (E, F), (F, E), (E, Fo), (A, T), (T, B), (A, Bo), (Bo, A), (A, Do)]
        if thorough:
            out += [(A, B, T), (A, D, B), (E, F, ), (A, C, T), (T, A, B), (B, T, A)]
    return out


def elements_for(kind, G, thorough=False):
    """the element family of a kind for scenes on lattice G (holes / multi-polygon families live on
    their own 0..10 lattice and are returned by elements_big)"""
    if kind == "point":
        return fam_points(G)
    if kind == "multipoint":
        return fam_multipoints(G)
    if kind == "line":
        return fam_lines(G, 4 if thorough else 3)
    if kind == "ring":
        return fam_simple_rings(G, 5 if thorough and G <= 2 else 4)
    if kind == "multiline":
        return fam_multilines(G, thorough)
    if kind == "polygon":
        return fam_polygons_simple(G, 5 if thorough and G <= 2 else 4)
    raise ValueError(kind)


def elements_big(kind, thorough=False):
    """families on the 0..10 lattice (G=5)"""
    if kind == "polygon":
        return fam_polygons_holes(thorough)
    if kind == "multipolygon":
        return fam_multipolygons(thorough)
    raise ValueError(kind)
