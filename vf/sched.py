"""E3 -- controlled scheduling of REAL threads (cooperative baton passing) and a stateless,
deviation-bounded explorer.

Coop            one-at-a-time execution of managed threads; a managed thread hands the baton back
                at every yield point (a filesystem call of VerifFS, a sys.monitoring LINE event of
                selected code objects, task start / end).
explore()       CHESS-style iterative context bounding: every schedule with at most `bound`
                deviations from the canonical default choice (index 0 = keep running the current
                thread / start the ready task with the best Dask priority); executions always run
                to completion; an out-of-range replayed choice is a hard error; the default
                schedule is replayed twice and must give identical observations.
controlled_get  a Dask scheduler callable (compute(scheduler=...) / dask.config.set) whose every
                decision -- which ready task to start (bounded by W workers) and which running task
                advances to its next yield point -- is taken by the explorer.
"""
import sys
import threading

from . import core

_tls = threading.local()


class Deadlock(Exception):
    pass


class Coop:
    def __init__(self, chooser):
        self.chooser = chooser
        self.ctrl = threading.Semaphore(0)
        self.threads = {}          # tid -> record
        self.order = []            # tids in creation order
        self.current = None
        self.trace = []            # (tid, label) in execution order -- the observation log of the schedule
        self.lock = threading.Lock()

    # ---- called by the controller -----------------------------------------------------------
    def spawn(self, tid, fn):
        rec = {"sem": threading.Semaphore(0), "state": "new", "result": None, "exc": None, "label": "start", "waiting": False}

        def body():
            _tls.coop = self
            _tls.tid = tid
            rec["sem"].acquire()
            try:
                rec["result"] = fn()
            except BaseException as ex:      # noqa: BLE001 -- reported to the harness
                rec["exc"] = ex
            finally:
                rec["state"] = "done"
                _tls.coop = None
                self.ctrl.release()

        th = threading.Thread(target=body, daemon=True, name=f"vf-{tid}")
        rec["thread"] = th
        self.threads[tid] = rec
        self.order.append(tid)
        rec["state"] = "runnable"
        th.start()

    def runnable(self):
        """threads that can make progress: not finished and not waiting for a lock that nobody released since"""
        alive = [t for t in self.order if self.threads[t]["state"] == "runnable"]
        rn = [t for t in alive if not self.threads[t]["waiting"]]
        if alive and not rn:
            raise Deadlock("every live thread waits for a lock: " + ", ".join(f"{t}@{self.threads[t]['label']}" for t in alive))
        return rn

    def waiting(self, tid):
        return self.threads[tid]["waiting"]

    def step(self, tid):
        """let thread tid run to its next yield point or to completion"""
        rec = self.threads[tid]
        self.current = tid
        self.trace.append((str(tid), rec["label"]))
        rec["waiting"] = False
        rec["sem"].release()
        if not self.ctrl.acquire(timeout=120):
            import faulthandler
            faulthandler.dump_traceback(all_threads=True)
            raise core.HarnessError(f"managed thread {tid} did not yield within 120 s (blocked outside the scheduler?)")
        if not rec["waiting"]:
            # the thread made progress (it may have released a lock): lock waiters may try again
            for r in self.threads.values():
                if r is not rec:
                    r["waiting"] = False

    def done(self, tid):
        return self.threads[tid]["state"] == "done"

    # ---- called inside managed threads ------------------------------------------------------
    def yield_point(self, label, waiting=False):
        tid = _tls.tid
        rec = self.threads[tid]
        rec["label"] = label
        rec["waiting"] = waiting
        self.ctrl.release()
        rec["sem"].acquire()


def current_coop():
    return getattr(_tls, "coop", None)


def maybe_yield(label):
    c = current_coop()
    if c is not None:
        c.yield_point(label)


# ------------------------------------------------------------------------------------------------
# locks of the library under check: waiting for one is a scheduling point, never a real block
# ------------------------------------------------------------------------------------------------
_REAL_LOCK_TYPES = (type(threading.Lock()), type(threading.RLock()))


class CoopLock:
    """drop-in for threading.Lock / RLock: a managed thread that finds the lock taken hands the baton back (marked as
    waiting) instead of blocking, so a lock held by a suspended thread cannot hang the explorer; unmanaged threads
    (and the free-running runs) get the real behaviour"""

    def __init__(self, reentrant=False, real=None):
        self._l = real if real is not None else (threading.RLock() if reentrant else threading.Lock())

    def acquire(self, blocking=True, timeout=-1):
        c = current_coop()
        if c is None or not blocking:
            return self._l.acquire(blocking, timeout)
        while not self._l.acquire(False):
            c.yield_point("lock-wait", waiting=True)
        return True

    def release(self):
        self._l.release()

    def locked(self):
        return self._l.locked() if hasattr(self._l, "locked") else False

    def __enter__(self):
        self.acquire()
        return self

    def __exit__(self, *a):
        self.release()


class _ThreadingProxy:
    """stands in for the `threading` module inside the library's modules: Lock / RLock give cooperative locks"""

    def __init__(self, real):
        self.__dict__["_real"] = real

    def Lock(self):
        return CoopLock(False)

    def RLock(self):
        return CoopLock(True)

    def __getattr__(self, name):
        return getattr(self._real, name)


class cooperative_locks:
    """context manager: every lock the library owns (module globals, created at import or later through its `threading`
    / `Lock` / `RLock` names) becomes a CoopLock while managed threads run"""

    def __init__(self, package="spatialpandas", third_party=("dask", "fsspec", "retrying")):
        self.package = package
        self.third_party = third_party
        self.saved = []

    def __enter__(self):
        import types
        # module-level locks of the libraries the code under check calls into while it may be suspended (dask's tokenize lock is
        # held around the library's own normalize_token functions): the same real lock, taken cooperatively by managed threads
        for name, mod in list(sys.modules.items()):
            if mod is None or not any(name == t or name.startswith(t + ".") for t in self.third_party):
                continue
            for k, v in list(vars(mod).items()):
                if isinstance(v, _REAL_LOCK_TYPES):
                    self.saved.append((mod, k, v))
                    setattr(mod, k, CoopLock(real=v))
        for name, mod in list(sys.modules.items()):
            if mod is None or not (name == self.package or name.startswith(self.package + ".")):
                continue
            for k, v in list(vars(mod).items()):
                new = None
                if isinstance(v, _REAL_LOCK_TYPES):
                    new = CoopLock(real=v)
                elif isinstance(v, types.ModuleType) and v is threading:
                    new = _ThreadingProxy(threading)
                elif v is threading.Lock:
                    new = (lambda: CoopLock(False))
                elif v is threading.RLock:
                    new = (lambda: CoopLock(True))
                if new is not None:
                    self.saved.append((mod, k, v))
                    setattr(mod, k, new)
        return self

    def __exit__(self, *a):
        for mod, k, v in self.saved:
            setattr(mod, k, v)
        self.saved = []


# ------------------------------------------------------------------------------------------------
# choosers / explorer
# ------------------------------------------------------------------------------------------------
class Chooser:
    """replays a prefix of choices, then always takes the default (index 0); records every point"""

    def __init__(self, prefix):
        self.prefix = list(prefix)
        self.points = []            # (n_enabled, chosen)

    def __call__(self, enabled):
        i = len(self.points)
        if i < len(self.prefix):
            c = self.prefix[i]
            if c >= len(enabled):
                raise core.HarnessError(f"replay divergence: choice {c} at point {i} but only {len(enabled)} enabled")
        else:
            c = 0
        self.points.append((len(enabled), c))
        return c

    def choices(self):
        return [c for _, c in self.points]


DEADLINE = [None]        # absolute time after which explore() starts no further execution (the run reports the cap)
CAPPED = [0]             # explorations cut short by the deadline since the counter was last read
HEARTBEAT = [None]       # path of a file touched after every execution (lets a watchdog tell slow from stuck)


def _beat():
    if HEARTBEAT[0]:
        try:
            with open(HEARTBEAT[0], "w") as f:
                f.write("x")
        except OSError:
            pass


def explore(run_once, bound, shard=None, on_execution=None, max_executions=None):
    """run_once(chooser) executes the harness once under the chooser and returns an observation
    (anything comparable).  Returns stats dict.  shard=(i, n): this worker only explores the
    first-level alternatives whose ordinal % n == i (the default schedule is run by every worker)."""
    stats = {"executions": 0, "points_default": 0, "max_points": 0, "capped": False}
    import time
    ch = Chooser([])
    obs0 = run_once(ch)
    _beat()
    ch2 = Chooser([])
    obs0b = run_once(ch2)
    _beat()
    if ch.choices() != ch2.choices() or obs0 != obs0b:
        raise core.HarnessError("default schedule is not reproducible (observations or choice points differ between two runs)")
    stats["executions"] += 1
    stats["points_default"] = len(ch.points)
    if on_execution:
        on_execution([], obs0, ch.points)
    ordinal = [0]

    def rec(prefix, points, ndev, first_level):
        for i in range(len(prefix), len(points)):
            n_en, _ = points[i]
            if n_en <= 1 or ndev + 1 > bound:
                continue
            for alt in range(1, n_en):
                if first_level and shard is not None:
                    ordinal[0] += 1
                    if ordinal[0] % shard[1] != shard[0]:
                        continue
                if (max_executions and stats["executions"] >= max_executions) or (DEADLINE[0] and time.time() > DEADLINE[0]):
                    stats["capped"] = True
                    return
                newp = [c for _, c in points[:i]] + [alt]
                c = Chooser(newp)
                obs = run_once(c)
                _beat()
                stats["executions"] += 1
                stats["max_points"] = max(stats["max_points"], len(c.points))
                if c.choices()[:len(newp)] != newp:
                    raise core.HarnessError("replayed prefix diverged")
                if on_execution:
                    on_execution(newp, obs, c.points)
                rec(newp, c.points, ndev + 1, False)
                if stats["capped"]:
                    return

    rec([], ch.points, 0, True)
    if stats["capped"]:
        CAPPED[0] += 1
    return stats


# ------------------------------------------------------------------------------------------------
# controlled Dask scheduler
# ------------------------------------------------------------------------------------------------
class ControlledDask:
    """callable usable as compute(scheduler=...) and dask.config.set(scheduler=...)"""

    def __init__(self, chooser, workers=2, log=None):
        self.chooser = chooser
        self.workers = workers
        self.log = log if log is not None else []
        self.ncomputes = 0

    def __call__(self, dsk, keys, **kwargs):
        from collections.abc import Mapping

        import dask
        from dask._task_spec import convert_legacy_graph
        from dask.core import flatten
        from dask.order import order as dask_order
        if not isinstance(dsk, Mapping):
            dsk = dsk.__dask_graph__()
        dsk = convert_legacy_graph(dict(dsk))
        self.ncomputes += 1
        tag = self.ncomputes
        deps = {k: set(d for d in t.dependencies if d in dsk) for k, t in dsk.items()}
        try:
            prio = dask_order(dsk)
        except Exception:
            prio = {k: i for i, k in enumerate(sorted(dsk, key=str))}
        dependents = {k: set() for k in dsk}
        for k, ds in deps.items():
            for d in ds:
                dependents[d].add(k)
        cache = {}
        waiting = {k: set(v) for k, v in deps.items()}
        ready = sorted([k for k, v in waiting.items() if not v], key=lambda k: prio[k])
        coop = Coop(self.chooser)
        running = []        # tids (task keys) started and not finished
        last = [None]

        def finish(k):
            rec = coop.threads[k]
            if rec["exc"] is not None:
                raise rec["exc"]
            cache[k] = rec["result"]
            running.remove(k)
            # like dask's own local scheduler the ready set is a LIFO stack: the dependents of the task that just
            # finished come first (depth-first along a chain), so ONE deviation is enough to run another chain first
            newly = []
            for d in sorted(dependents[k], key=lambda x: prio[x]):
                waiting[d].discard(k)
                if not waiting[d] and d not in cache and d not in running and d not in ready:
                    newly.append(d)
            ready[:0] = newly

        while ready or running:
            enabled = []
            # canonical order: the thread that ran last (non-preemptive default), other running threads in start
            # order, then ready tasks by Dask's own priority (only if a worker slot is free)
            if last[0] in running and not coop.waiting(last[0]):
                enabled.append(("step", last[0]))
            for k in running:
                if k != last[0] and not coop.waiting(k):
                    enabled.append(("step", k))
            if len(running) < self.workers:
                for k in ready:
                    enabled.append(("start", k))
            if not enabled:
                raise Deadlock("no enabled task (running tasks wait for locks: %s)" % [str(k)[:40] for k in running])
            c = self.chooser(enabled) if len(enabled) > 1 else 0
            kind, k = enabled[c]
            if kind == "start":
                ready.remove(k)
                task = dsk[k]
                running.append(k)
                coop.spawn(k, (lambda t: (lambda: t(cache)))(task))
            last[0] = k
            coop.step(k)
            self.log.append((tag, kind, str(k)[:60], coop.threads[k]["label"] if not coop.done(k) else "end"))
            if coop.done(k):
                finish(k)
                last[0] = None
        def pack(kk):
            if isinstance(kk, list):
                return [pack(x) for x in kk]
            return cache[kk]
        return pack(list(keys)) if isinstance(keys, list) else cache[keys]


# ------------------------------------------------------------------------------------------------
# line-level yield points for selected code objects (PEP 669)
# ------------------------------------------------------------------------------------------------
TOOL_ID = 4


class LineYield:
    def __init__(self, code_objects):
        self.codes = [c for c in code_objects if c is not None]

    def __enter__(self):
        mon = sys.monitoring
        try:
            mon.use_tool_id(TOOL_ID, "vf-sched")
        except ValueError:
            pass

        def cb(code, line):
            c = current_coop()
            if c is not None:
                c.yield_point(f"{code.co_name}:{line}")
            return None

        mon.register_callback(TOOL_ID, mon.events.LINE, cb)
        for c in self.codes:
            mon.set_local_events(TOOL_ID, c, mon.events.LINE)
        return self

    def __exit__(self, *a):
        mon = sys.monitoring
        for c in self.codes:
            mon.set_local_events(TOOL_ID, c, 0)
        mon.register_callback(TOOL_ID, mon.events.LINE, None)
        try:
            mon.free_tool_id(TOOL_ID)
        except Exception:
            pass


def run_threads(chooser, bodies):
    """run the given thunks as managed threads under the chooser; returns (results, excs, trace)"""
    coop = Coop(chooser)
    for i, b in enumerate(bodies):
        coop.spawn(i, b)
    last = None
    while True:
        rn = coop.runnable()
        if not rn:
            break
        enabled = ([last] if last in rn else []) + [t for t in rn if t != last]
        c = chooser(enabled) if len(enabled) > 1 else 0
        t = enabled[c]
        coop.step(t)
        last = t if not coop.done(t) else None
    res = [coop.threads[i]["result"] for i in range(len(bodies))]
    exc = [coop.threads[i]["exc"] for i in range(len(bodies))]
    return res, exc, coop.trace
