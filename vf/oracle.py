"""Exact oracles on integer lattice coordinates (Python int / numpy int64, no floating point).

Written from the mathematical definitions and structurally different from the code under test:
  * segment x box by parametric (Liang-Barsky) clipping with cross-multiplied integers
    (the implementation uses orientation tests against the four box edges);
  * point in region by the EVEN-ODD rule with an UPWARD ray, evaluated only for points proven to be
    off every ring (the implementation uses a rightward winding number);
  * shoelace area in integers; exact lengths.

Element representation (see lattice.py): point (x, y); multipoint/line/ring tuple of points;
multiline tuple of lines; polygon tuple of rings (closed: first == last); multipolygon tuple of
polygons; None = missing; () = empty.
"""
import math
from fractions import Fraction

import numpy as np

KINDS = ("point", "multipoint", "line", "ring", "multiline", "polygon", "multipolygon")
LINE_KINDS = ("line", "ring", "multiline")
POLY_KINDS = ("polygon", "multipolygon")


# ------------------------------------------------------------------------------------------------
# decomposition helpers
# ------------------------------------------------------------------------------------------------
def vertices(kind, e):
    if e is None:
        return []
    if kind == "point":
        return [e] if e != () else []
    if kind in ("multipoint", "line", "ring"):
        return list(e)
    if kind in ("multiline", "polygon"):
        return [v for part in e for v in part]
    if kind == "multipolygon":
        return [v for poly in e for ring in poly for v in ring]
    raise ValueError(kind)


def chains(kind, e):
    """list of vertex chains whose consecutive vertices are joined by segments"""
    if e is None or kind in ("point", "multipoint"):
        return []
    if kind in ("line", "ring"):
        return [list(e)]
    if kind in ("multiline", "polygon"):
        return [list(part) for part in e]
    if kind == "multipolygon":
        return [list(ring) for poly in e for ring in poly]
    raise ValueError(kind)


def segments(kind, e):
    out = []
    for ch in chains(kind, e):
        for a, b in zip(ch[:-1], ch[1:]):
            out.append((a, b))
    return out


def rings_of(kind, e):
    if kind == "polygon":
        return [list(r) for r in e]
    if kind == "multipolygon":
        return [list(r) for poly in e for r in poly]
    raise ValueError(kind)


# ------------------------------------------------------------------------------------------------
# vectorised over boxes (int64 arrays X0<=X1, Y0<=Y1)
# ------------------------------------------------------------------------------------------------
def seg_hits_boxes(p, q, X0, Y0, X1, Y1):
    """closed segment pq meets closed box, for every box; exact integer Liang-Barsky"""
    px, py = p
    qx, qy = q
    B = len(X0)
    ok = np.ones(B, dtype=bool)
    lo_n = np.zeros(B, dtype=np.int64)
    lo_d = np.ones(B, dtype=np.int64)
    hi_n = np.ones(B, dtype=np.int64)
    hi_d = np.ones(B, dtype=np.int64)
    for d, p0, A, Bv in ((qx - px, px, X0, X1), (qy - py, py, Y0, Y1)):
        if d == 0:
            ok &= (A <= p0) & (p0 <= Bv)
            continue
        if d > 0:
            n1, n2, den = A - p0, Bv - p0, d
        else:
            n1, n2, den = p0 - Bv, p0 - A, -d
        upd = lo_n * den < n1 * lo_d          # lo < n1/den
        lo_n = np.where(upd, n1, lo_n)
        lo_d = np.where(upd, den, lo_d)
        upd = hi_n * den > n2 * hi_d          # hi > n2/den
        hi_n = np.where(upd, n2, hi_n)
        hi_d = np.where(upd, den, hi_d)
    ok &= lo_n * hi_d <= hi_n * lo_d
    return ok


def points_in_region_evenodd(rings, PX, PY):
    """even-odd membership of points (int64 arrays) in the region bounded by rings, by an upward
    ray; only meaningful for points that lie on no ring"""
    inside = np.zeros(len(PX), dtype=bool)
    for ring in rings:
        for (ax, ay), (bx, by) in zip(ring[:-1], ring[1:]):
            if ax == bx:
                continue                       # vertical edge never crosses a vertical ray properly
            lo, hi = (ax, bx) if ax < bx else (bx, ax)
            strad = (lo <= PX) & (PX < hi)      # half-open in x
            w = bx - ax
            lhs = ay * w + (by - ay) * (PX - ax)     # y_int * w
            rhs = PY * w
            above = (lhs > rhs) if w > 0 else (lhs < rhs)
            inside ^= strad & above
    return inside


def points_on_chains(chs, PX, PY):
    on = np.zeros(len(PX), dtype=bool)
    for ch in chs:
        if len(ch) == 1:
            on |= (PX == ch[0][0]) & (PY == ch[0][1])
        for (ax, ay), (bx, by) in zip(ch[:-1], ch[1:]):
            cross = (bx - ax) * (PY - ay) - (by - ay) * (PX - ax)
            on |= ((cross == 0) & (min(ax, bx) <= PX) & (PX <= max(ax, bx)) &
                   (min(ay, by) <= PY) & (PY <= max(ay, by)))
    return on


def elem_hits_boxes(kind, e, X0, Y0, X1, Y1):
    """closed point set of element e meets closed box, for every box (arrays, corners ordered)"""
    B = len(X0)
    res = np.zeros(B, dtype=bool)
    if e is None or e == ():
        return res
    for (x, y) in vertices(kind, e):
        res |= (X0 <= x) & (x <= X1) & (Y0 <= y) & (y <= Y1)
    if kind in ("point", "multipoint"):
        return res
    for a, b in segments(kind, e):
        res |= seg_hits_boxes(a, b, X0, Y0, X1, Y1)
    if kind in POLY_KINDS:
        # where no ring segment meets the box the box lies in one face: test its lower-left corner,
        # which is then off every ring
        rest = ~res
        if rest.any():
            ins = points_in_region_evenodd(rings_of(kind, e), X0[rest], Y0[rest])
            res[np.nonzero(rest)[0][ins]] = True
    return res


# ------------------------------------------------------------------------------------------------
# point classification (C02)
# ------------------------------------------------------------------------------------------------
ON_RING = "on_ring"


def classify_points(kind, e, PX, PY):
    """returns (expected bool array, defined bool array): expected truth of `point intersects e`
    where defined; for polygon kinds points on a ring are undefined"""
    n = len(PX)
    if e is None or e == ():
        return np.zeros(n, dtype=bool), np.ones(n, dtype=bool)
    if kind == "point":
        return (PX == e[0]) & (PY == e[1]), np.ones(n, dtype=bool)
    if kind == "multipoint":
        r = np.zeros(n, dtype=bool)
        for (x, y) in e:
            r |= (PX == x) & (PY == y)
        return r, np.ones(n, dtype=bool)
    if kind in LINE_KINDS:
        return points_on_chains(chains(kind, e), PX, PY), np.ones(n, dtype=bool)
    rings = rings_of(kind, e)
    on = points_on_chains(rings, PX, PY)
    ins = points_in_region_evenodd(rings, PX, PY)
    return ins & ~on, ~on


# ------------------------------------------------------------------------------------------------
# scalar cross-check versions (pure Python ints / Fractions); used to validate the vectorised ones
# ------------------------------------------------------------------------------------------------
def seg_hits_box_scalar(p, q, box):
    x0, y0, x1, y1 = box
    t0, t1 = Fraction(0), Fraction(1)
    for d, p0, a, b in ((q[0] - p[0], p[0], x0, x1), (q[1] - p[1], p[1], y0, y1)):
        if d == 0:
            if p0 < a or p0 > b:
                return False
        else:
            ta, tb = Fraction(a - p0, d), Fraction(b - p0, d)
            if ta > tb:
                ta, tb = tb, ta
            t0, t1 = max(t0, ta), min(t1, tb)
    return t0 <= t1


def point_in_region_scalar(rings, px, py):
    c = 0
    for ring in rings:
        for (ax, ay), (bx, by) in zip(ring[:-1], ring[1:]):
            if ax == bx:
                continue
            if min(ax, bx) <= px < max(ax, bx):
                yint = Fraction(ay) + Fraction(by - ay, bx - ax) * (px - ax)
                if yint > py:
                    c += 1
    return c % 2 == 1


def elem_hits_box_scalar(kind, e, box):
    x0, y0, x1, y1 = box
    if e is None or e == ():
        return False
    if any(x0 <= x <= x1 and y0 <= y <= y1 for x, y in vertices(kind, e)):
        return True
    if kind in ("point", "multipoint"):
        return False
    if any(seg_hits_box_scalar(a, b, box) for a, b in segments(kind, e)):
        return True
    if kind in POLY_KINDS:
        return point_in_region_scalar(rings_of(kind, e), x0, y0)
    return False


# ------------------------------------------------------------------------------------------------
# bounds and measures
# ------------------------------------------------------------------------------------------------
def bounds_of(kind, e):
    vs = vertices(kind, e)
    xs = [x for x, _ in vs if isinstance(x, (int, Fraction)) or math.isfinite(x)]
    ys = [y for _, y in vs if isinstance(y, (int, Fraction)) or math.isfinite(y)]
    nan = float("nan")
    return (min(xs) if xs else nan, min(ys) if ys else nan,
            max(xs) if xs else nan, max(ys) if ys else nan)


def signed_area2_ring(ring):
    """twice the signed shoelace area of a closed ring (first == last)"""
    s = 0
    for (ax, ay), (bx, by) in zip(ring[:-1], ring[1:]):
        s += ax * by - bx * ay
    return s


def area2(kind, e):
    """twice the signed shoelace area summed over all rings (0 for non-polygon kinds)"""
    if e is None:
        return None
    if kind not in POLY_KINDS:
        return 0
    return sum(signed_area2_ring(r) for r in rings_of(kind, e) if len(r) >= 3)


def length_of(kind, e):
    """(exact_flag, value): exact when every segment is axis-parallel or Pythagorean"""
    if e is None:
        return True, None
    if kind in ("point", "multipoint"):
        return True, 0
    tot_exact = 0
    inexact = []
    for (ax, ay), (bx, by) in segments(kind, e):
        if not all(isinstance(v, (int, Fraction)) or math.isfinite(v) for v in (ax, ay, bx, by)):
            continue
        dx, dy = bx - ax, by - ay
        sq = dx * dx + dy * dy
        r = math.isqrt(int(sq)) if sq == int(sq) else None
        if r is not None and r * r == sq:
            tot_exact += r
        else:
            inexact.append(math.hypot(dx, dy))
    if not inexact:
        return True, tot_exact
    return False, math.fsum([float(tot_exact)] + inexact)
