#!/bin/bash
# usage: tools/mutcheck.sh <patch.diff> <ID> [<ID> ...]   (env TIER=quick|thorough)
# Applies the patch to a scratch copy of /repo (outside /repo and /verif), points the named checks at it,
# prints their exit codes, removes the copy.
patch="$(realpath "$1")"; shift
S=$(mktemp -d /tmp/mutrepo-XXXXXX)
git -C /repo archive ${REPO_REV:-HEAD} | tar -x -C "$S"
( cd "$S" && git init -q . && git apply --whitespace=nowarn "$patch" ) || { echo "PATCH-FAILED $patch"; rm -rf "$S"; exit 3; }
O=$(mktemp -d /tmp/mutout-XXXXXX)
rc_all=0
for id in "$@"; do
  VERIF_REPO="$S" VERIF_OUT="$O" timeout ${TIMEOUT:-1800} /verif/check "$id" --tier "${TIER:-quick}" > "$O/$id.log" 2>&1
  rc=$?
  echo "MUTCHECK patch=$(basename "$(dirname "$patch")")/$(basename "$patch") check=$id exit=$rc $(grep -c '^VIOLATION' "$O/$id.log") violations; $(grep -m1 'site=' "$O/$id.log" | cut -c1-200)"; grep -o "site=[^ ]*" "$O/$id.log" | sort | uniq -c | tr "\n" ";"; echo
  [ $rc -ne 1 ] && rc_all=1
done
rm -rf "$S" "$O"
exit $rc_all
