#!/bin/bash
# development aid: which lines of the library does no quick check execute?  (numba kernels are compiled, so only
# their Python-level callers show up; a never-executed line is a certain blind spot, an executed one proves nothing)
# usage: tools/blindspots.sh [IDs...]   -> report on stdout; scratch under /tmp, removed at the end
D=$(mktemp -d /tmp/vfcov-XXXXXX)
IDS="${*:-C01 C02 C03 C04 C05 C06 C07 C08 C09 C10 C11 C12 C13 C14 C15 C16 C17 C18 C19 C20}"
for id in $IDS; do
  VERIF_COV=$D VERIF_OUT=$D/out timeout 7200 /verif/check $id > $D/$id.log 2>&1
  echo "$id exit=$?"
done
cd $D && /venv/bin/python -m coverage combine -q --data-file=$D/.coverage $D/.coverage.* >/dev/null 2>&1
/venv/bin/python -m coverage report --data-file=$D/.coverage -m --skip-covered 2>&1 | cut -c1-400
cd /; rm -rf $D
