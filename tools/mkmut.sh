#!/bin/bash
# usage: tools/mkmut.sh <out.diff> <relative file> <python-snippet that edits string s>   -- builds a diff against /repo HEAD
out="$1"; f="$2"; code="$3"
S=$(mktemp -d /tmp/mk-XXXXXX); git -C /repo archive HEAD | tar -x -C "$S"; cd "$S" && git init -q . && git add -A >/dev/null && git -c user.email=a@b -c user.name=x commit -qm base
/venv/bin/python - "$f" "$code" <<'PY'
import sys
f, code = sys.argv[1], sys.argv[2]
s = open(f).read(); s0 = s
ns = {"s": s}
exec(code, ns)
s = ns["s"]
assert s != s0, "mutation did not change the file"
open(f, "w").write(s)
PY
rc=$?
git diff > "$out"; cd /; rm -rf "$S"; exit $rc
