#!/bin/bash
# runs every check's thorough tier sequentially; prints one summary line per check
cd "$(dirname "$0")/.."
for id in ${@:-C03 C07 C08 C13 C14 C15 C01 C02 C16 C04 C05 C11 C12 C10 C09 C17 C20 C06 C19 C18}; do
  s=$(date +%s)
  ./check $id --tier thorough > thorough-$id.log 2>&1
  rc=$?
  echo "THOROUGH $id exit=$rc wall=$(( $(date +%s) - s ))s $(grep -c '^VIOLATION' thorough-$id.log) violations; $(tail -1 thorough-$id.log | cut -c1-200)"
done
