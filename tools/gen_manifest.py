#!/venv/bin/python
"""Regenerate MANIFEST.json from the table below; validates against the schema."""
import json
import os
import subprocess
import sys

V = os.path.dirname(os.path.dirname(os.path.abspath(__file__)))

# id -> (level, engine, technique, text, note, design_ref)
CHECKS = {
 "C03": ("exploration", "E1",
         "bounded exhaustive enumeration of inputs/configurations against a brute-force oracle",
         "Every row sequence over a small interval alphabet incl. NaN rows x every page size x p x every "
         "query on the grid (d=1,2,3), every (n,page_size) tree shape up to N, and the public sindex seam are "
         "enumerated completely and each answer is compared with brute force. Right level: the property is "
         "universally quantified over inputs/configurations and the decisive cases are ties and ragged tree "
         "shapes, which a small complete alphabet contains by construction.",
         "Exactness on small integer/half-integer grids; rows fully finite or fully NaN; bounded n (see evidence).",
         "DESIGN.md section 3/C03"),

 "C01": ("exploration", "E1",
         "bounded exhaustive enumeration of lattice scenes against an exact integer clipping / even-odd oracle",
         "Every element of complete lattice shape families (all vertex sequences, every simple lattice polygon in "
         "every rotation and direction, holes and multi-part pools, missing/empty) x every lattice box x 4 corner "
         "orders x 5 subtypes x forms (array, inds, sliced, scalar, GeoSeries) is evaluated and compared bit-for-bit "
         "with an exact oracle that is structurally different from the kernels. The decisive ties (box edge through "
         "a vertex, collinear edges, box in a hole) are measure-zero for sampling but are all in the lattice alphabet.",
         "Lattice size G (see evidence), <=4/5 vertices, valid polygons, positive-area boxes for line/polygon kinds; "
         "prange kernels run with one numba thread (thread-count independence is C18).",
         "DESIGN.md section 3/C01"),
 "C02": ("exploration", "E1",
         "bounded exhaustive enumeration of (shape, point) lattice scenes against an exact classification oracle",
         "Every shape of the lattice families x EVERY integer lattice point (so every ray-through-vertex / "
         "along-horizontal-edge / collinear-beyond-end case occurs) x point subtypes x forms (scalar, array, array "
         "with missing points, sliced, inds, GeoSeries), compared with exact classification; on-ring points only "
         "checked for agreement between forms.",
         "Lattice size G (see evidence); valid polygons; shapes non-empty.",
         "DESIGN.md section 3/C02"),
 "C13": ("exploration", "E1",
         "bounded exhaustive enumeration of small arrays and derivations against min/max over finite coordinates",
         "Every array of <=3 elements over a per-kind pool (ordinary, single-vertex, empty, missing, NaN/inf "
         "coordinates) x 5 subtypes x 7 derivations (slices, takes with/without fill, concatenations; zero rows) is "
         "built and bounds/total_bounds(_x/_y), GeoSeries, sindex and Dask (every partition count) views are compared "
         "with the definition. The cases that matter (validity bitmap vs zero-filled slots, buffer offsets) are "
         "structural, so a small complete alphabet covers them.",
         "Arrays of <=3 (derived <=6) elements; sindex.total_bounds compared only when no row is partially NaN.",
         "DESIGN.md section 3/C13"),
 "C14": ("exploration", "E1",
         "bounded exhaustive enumeration of ring/part structures and lattice coordinates against integer shoelace / exact lengths",
         "Every sequence of 0..3 rings over an 11-ring pool (1..5 vertices, zero-area, collinear, cw/ccw, Pythagorean, "
         "generic), 1..3 parts, every lattice vertex sequence for lines, NaN vertices at every position, missing rows, "
         "buffer offsets 0/1/2, 5 subtypes, array/scalar/GeoSeries forms, pushed through exact similarities; area "
         "compared exactly, length exactly or to 1e-12, boundary ring-for-ring.",
         "Closed rings; no 0-vertex rings inside a polygon; coordinates exactly representable in the subtype.",
         "DESIGN.md section 3/C14"),
 "C15": ("exploration", "E1",
         "bounded exhaustive enumeration of ring-direction assignments and array layouts, post-conditions checked directly",
         "Every direction assignment (2^rings) of every ring structure (shells x 0..2 holes incl. zero-area and 2-vertex "
         "rings, degenerate shells, multipolygons), single-element arrays and every 2..3-element array with missing / "
         "empty elements at every position, full and sliced, 5 subtypes: direction by exact signed area, ring vertex "
         "sequences, structure, missing preserved, idempotence, input buffers bit-identical, areas, and intersection "
         "results on every lattice box and point. Kernels run with NUMBA_BOUNDSCHECK=1 so out-of-bounds writes fail loudly.",
         "Intersection invariance only for inputs whose holes are wound opposite to their shell; holes inside by construction.",
         "DESIGN.md section 3/C15"),
 "C07": ("exploration", "E1",
         "exhaustive enumeration of all cells and all distances per (n,p) up to 2^20..2^22 cells; structured seam family beyond",
         "For every (n,p) up to the stated limit ALL cells and ALL distances are evaluated and every clause of the "
         "statement is checked on the whole grid (round trips, permutation, adjacency, refinement between successive "
         "orders, end points, scalar == vectorised, every integer coordinate dtype). For larger p (up to n*p=62) the "
         "same clauses are checked on a deterministic family of quadrant-seam cells/distances, which is where the "
         "Gray-code and undo-excess-work steps change behaviour.",
         "Beyond the exhaustive limit only the structured family is covered (stated in evidence).",
         "DESIGN.md section 3/C07"),
 "C08": ("exploration", "E1",
         "bounded exhaustive enumeration of (kind, total_bounds variant, argument type, p, position) against an exact rational cell + independent Hilbert reference",
         "7 kinds x 7 explicit extents (power-of-two, zero width/height/both, not containing the data) x 27 dyadic centres "
         "(interior, cell boundaries, edges, outside) x tuple/list/float-ndarray/int-ndarray/int-list x every p in 1..31 x "
         "positions (reversed, sliced, single, missing neighbours, GeoSeries) plus default bounds; expected cell by exact "
         "rational arithmetic, expected distance by a textbook xy2d reference; argument compared before/after.",
         "Exact equality is only claimed where the extent is a power of two and centres dyadic (all enumerated scenes).",
         "DESIGN.md section 3/C08"),
 "C16": ("model_checking", "E2",
         "explicit-state BFS over derivation histories on the real arrays with a list-of-ids reference model",
         "Breadth-first search over all histories (depth 2 with the full slice menu, depth 3 with the reduced one in "
         "thorough) of integer indexing, slices with any step, every boolean mask, take with/without fill, "
         "concatenations, copy, iteration, pickle, parquet, GeoSeries iloc/loc and GeoDataFrame row selection from 14 "
         "base arrays. States are deduplicated on (element ids, pyarrow offset, buffer sizes) - physical layout is "
         "part of the state because it is what must not matter. On every transition the elements are compared with "
         "the model; in every new state every derived quantity (isna, bounds, total_bounds, length, area, 9 box "
         "tests, point-vs-shape tests, Hilbert distance, equality with a fresh array, scalars, iteration) is compared "
         "with the same selection of the base array's, and invalid requests must raise the pandas error classes.",
         "Every transition runs the real implementation, so traces_validated_against_impl == transitions. Base values "
         "are tied to exact oracles by C01/C02/C13/C14. Depth bound stated in evidence.",
         "DESIGN.md section 3/C16"),
 "C04": ("model_checking", "E2",
         "explicit-state BFS over index/derivation histories on the real objects; exact C01 oracle as reference model",
         "Breadth-first search over histories of build_sindex(page_size in {1,2,3,512}, p in {1,10}), iloc slices, "
         "boolean filters, take, copy, pickle and container changes (array -> GeoSeries -> GeoDataFrame with "
         "non-unique labels and extra columns) from 6 base row lists per kind (missing, empty, duplicates, single, "
         "zero rows). States are rebuilt by replaying their history on a fresh object and deduplicated on (rows, "
         "container, index state, pyarrow offset). In every new state every query of the product (lattice boxes x "
         "present/omitted/reversed slice ends) must return exactly the rows the exact oracle selects, in order, with "
         "labels and other columns intact - with and without an index, hence identically.",
         "traces_validated_against_impl == transitions (all run on the real code). Depth 2 quick / 3 thorough; "
         "degenerate effective boxes skipped for line/polygon kinds; evidence counts evaluations through the index path.",
         "DESIGN.md section 3/C04"),
 "C20": ("model_checking", "E2",
         "explicit-state BFS over frame-operation histories (pandas and Dask) with a (columns, active, rows, partitions) reference model",
         "Breadth-first search to depth 3 (4 in thorough) over iloc/filter/sort/copy/pickle/concat/head/loc/cx/column "
         "subsets/set_geometry/from_pandas(k) and Dask filter/cx/column subset/set_geometry/pack_partitions/"
         "to_parquet+read_parquet_dask(geometry=g|None)/compute, from frames with three geometry columns of different "
         "kinds whose active column is neither first nor named 'geometry'. In every new state: result type, "
         ".geometry.name, rows, and behavioural probes that reveal which column was really used (cx on boxes where the "
         "columns disagree, build_sindex, sjoin, packing order, per-partition active geometry via map_partitions, "
         "partition bounds, compute()).",
         "Each transition replays the history on a fresh real frame (traces_validated_against_impl == transitions). "
         "Column subsets that drop the active but keep another geometry column are not generated; pack raising is exempt.",
         "DESIGN.md section 3/C20"),
 "C05": ("exploration", "E1",
         "bounded exhaustive enumeration of left/right row sequences and configurations against a result table built from the exact C02 oracle",
         "Every left row sequence (0..3 rows over a pool with duplicates, a missing point, a point matching many and one "
         "matching nothing) x every right row sequence (0..2 rows, 6 geometry kinds) x how in {inner,left,right}, index "
         "styles (default, non-unique, named, MultiIndex; string labels on the right), clashing column names and suffix "
         "pairs rotated over all sequences; the complete expected table (labels, columns, geometry, missing values) is "
         "built from the exact point classification and compared as a multiset of rows.",
         "Row order and dtypes are pandas merge semantics and not compared; pool points are off polygon rings.",
         "DESIGN.md section 3/C05"),
 "C06": ("exploration", "E1",
         "bounded exhaustive differential enumeration: every partition count x every row mask x provenances x operations, Dask vs computed pandas frame",
         "For 4 base frames (two geometry columns, missing/empty rows) every from_pandas partition count 1..n and EVERY "
         "row mask (2^n) applied as a Dask filter (with and without previously cached partition bounds) - hence every "
         "pattern of empty, all-missing and covered partitions - plus set_geometry, pack_partitions and parquet "
         "read-back with geometry=/bounds=; on each, cx (frame and series, lattice boxes), cx_partitions, bounds, "
         "total_bounds, area, length, intersects_bounds and sjoin inner/left are compared with the same operation on the "
         "computed pandas frame with the same active geometry.",
         "The pandas side is the oracle (tied to exact oracles by C01/C04/C05); n=4 quick (plus a slice of n=6), n=6 "
         "thorough; pack_partitions raising is exempt; known finding F18 (dask phantom partition after pack) is listed.",
         "DESIGN.md section 3/C06"),
 "C09": ("exploration", "E1",
         "bounded exhaustive enumeration of frames x input partitionings x npartitions x p, checked against row multiset / per-row Hilbert distance / ordering",
         "3 frames (duplicate geometries, missing geometry, degenerate extent) x both geometry columns active x every "
         "from_pandas partition count plus pre-sorted input, Dask-side set_geometry, cached-bounds-then-filter and "
         "emptied-partition provenances x requested partitions 1..n+2 x p: whenever the call returns and computes, rows are "
         "conserved, each row's index is the Hilbert distance of its own active geometry w.r.t. the whole frame, the "
         "index is monotone within and across partitions, the partition count is as requested, and the result does not "
         "depend on the input partitioning.",
         "A raise (at call or compute) is outside the claim and only counted; known finding F19 (phantom partition count) listed.",
         "DESIGN.md section 3/C09"),
 "C10": ("exploration", "E1",
         "bounded exhaustive enumeration of configurations, observed on the real directory tree",
         "Frames (1..8 rows with duplicates / missing / degenerate extent, and 14 distinct rows for >10 parts) x input "
         "partitions 1..3 x npartitions 1..16 x five tempdir_format kinds (default, outside with/without uuid, outside but "
         "sharing the dataset path as prefix, with a format spec) x compression x previous larger/smaller dataset with "
         "overwrite=True: the real directory tree must hold exactly part.0..part.(k-1) as files plus the two metadata files, "
         "nothing may be left in the temp tree, and the returned frame and an independent read_parquet_dask must both "
         "hold the input rows in Hilbert order with k non-empty partitions.",
         "_retry_args shortened (1 ms, 3 attempts); quick rotates the last three axes over the full npartitions product.",
         "DESIGN.md section 3/C10"),
 "C11": ("exploration", "E1",
         "bounded exhaustive enumeration of (kind, subtype, array variant, index kind, compression, partitions, projections) round trips",
         "pandas path: the full product kind x subtype x array variant (plain with missing+empty, sliced, concatenated, "
         "all-missing) x 5 index kinds x 3 compressions (2100 frames), frames with all seven geometry columns and every "
         "ordered projection of size <= 2 (plus projections naming the index); Dask path: kind x subtype x partitions "
         "{1,2,3,11,12} x index kind x compression, projection, pandas reader on the multi-file dataset, list / reversed "
         "list / glob of datasets named d10,d9,d2. The written frame (and, independently, the intended dtype and "
         "coordinate values) must come back exactly.",
         "The written frame of the Dask path is ddf.compute(); file order of the pandas reader on a directory is not compared.",
         "DESIGN.md section 3/C11"),
 "C12": ("exploration", "E1",
         "bounded exhaustive enumeration of partition counts x writers x geometry= x dataset combinations x boxes against recomputed extents",
         "A 16-row frame (two geometry columns, missing/empty rows, an all-missing partition) written with 1..16 partitions "
         "by to_parquet, pack_partitions_to_parquet and to_parquet after cached-bounds-then-filter; read back with "
         "geometry in {default, pts}, single / list / glob / reversed list. Recorded bounds (frame attribute, series view, "
         "_common_metadata JSON parsed independently) must equal the extents recomputed from the raw coordinates of each "
         "loaded partition, in load order, for every column; for every box (generic, touching a partition extent exactly, "
         "just missing it, reversed, disjoint, covering) the kept partitions must be exactly those whose recorded extent "
         "overlaps, no intersecting row may be lost and the bounds reported afterwards must be those of the kept partitions.",
         "Partitions with NaN recorded extent are don't-care for pruning.",
         "DESIGN.md section 3/C12"),
 "C17": ("exploration", "E1",
         "bounded exhaustive enumeration of inert-row placements; metamorphic comparison with / without the inert rows",
         "For each of the 7 kinds: 3 valid elements with non-exact float coordinates and EVERY placement of 1..3 inert rows "
         "(missing / empty / (NaN,NaN) points) in a final length <= 6, plus all-inert, single-inert and inert-at-both-ends "
         "arrays; every operation named in the statement (bounds, total_bounds, measures, box and shape predicates, Hilbert "
         "distance, R-tree queries and cx with page sizes 1,2,3,512 and without index, sjoin with the inert rows on the left or "
         "the right, Dask total_bounds / cx for 1..3 partitions, pack_partitions, pack_partitions_to_parquet) must give the "
         "valid rows exactly what it gives without the inert rows, and must never select / match an inert row.",
         "Metamorphic relation, no oracle; pack_partitions raising is exempt.",
         "DESIGN.md section 3/C17"),
 "C19": ("fault_enumeration", "E4",
         "deviation-bounded exhaustive fault enumeration on the real function over an instrumented fsspec filesystem",
         "The real pack_partitions_to_parquet runs on VerifFS (a real local filesystem that numbers every outermost call). "
         "For every configuration (default / external temp dir x with / without empty output partitions x fresh / overwrite) "
         "EVERY position of the ~80-100 call sequence is hit with every applicable fault kind (OSError, FileNotFoundError "
         "before the call takes effect; stale listing for ls/find/glob/expand_path), once, R-1 times (within the retry budget) "
         "and R times (budget exhausted: crash point); thorough adds every pair of faults. Returned => dataset tree, per-file "
         "rows, partition-bounds metadata and temp directories must equal the fault-free reference; raised => a repeat with "
         "overwrite=True on a healthy filesystem must yield the reference dataset.",
         "Faults before effect + stale listings only; Dask synchronous and uuid4 a deterministic counter (determinism asserted "
         "on every run); differences visible only in the returned lazy frame are not violations.",
         "DESIGN.md section 3/C19"),
 "C18": ("model_checking", "E3",
         "stateless deviation-bounded schedule exploration of real threads / Dask tasks (iterative context bounding), plus a free-running grid as complement",
         "E3a: a controlled Dask scheduler (compute(scheduler=callable) / dask.config) decides which ready task starts (W in "
         "{1,2,3} workers, LIFO ready stack as in dask) and which running task advances to its next filesystem call; all "
         "schedules within the deviation bound for cx, sjoin, bounds/area/length/intersects_bounds, pack_partitions, "
         "pack_partitions_to_parquet (both temp modes, with an empty output partition) and read_parquet_dask must give the "
         "default schedule's result / dataset. E3b: 2-3 client threads on one fresh shared array / frame / Dask frame, "
         "pre-empted at every line of the lazily built caches (bound 2) and at every line of the whole library (bound 1) via "
         "sys.monitoring; each thread must get the serial answer and the object must stay correct. E3c: the prange kernels' "
         "own source, rewritten at check time so that iterations run as threads, all interleavings within 2 pre-emptions, "
         "result compared with the compiled kernel. The default schedule is replayed twice (determinism). A free-running "
         "grid (scheduler x workers x numba threads x N client threads, omp layer, separate process) complements it.",
         "numba kernels and third-party C code are atomic steps between yield points; the compiled parallel execution of "
         "prange kernels is only covered by the free-running grid, which is reported as uncontrolled runs, never as exhaustive.",
         "DESIGN.md section 3/C18"),
}

NOT_YET = {}

def main():
    props = [json.loads(l) for l in open(os.path.join(V, "properties.jsonl"))]
    checks = []
    na = []
    for p in props:
        pid = p["id"]
        if pid in CHECKS:
            level, engine, tech, text, note, ref = CHECKS[pid]
            checks.append({
                "property_id": pid,
                "quick_cmd": f"./check {pid} --tier quick",
                "thorough_cmd": f"./check {pid} --tier thorough",
                "evidence_file": f"/verif/evidence/{pid}.json",
                "replay_cmd_template": f"./check {pid} --replay {{path}}",
                "engine": engine,
                "level_claimed": {"category": level, "text": text + " The alphabets also carry the axes that four waves of "
                                  "independently seeded changes showed to matter (sizes, magnitudes, number types and spellings of "
                                  "arguments, object state and histories, aliasing, environment): DESIGN.md sections 8.7-8.8; the "
                                  "evidence file's rule field lists what a run enumerated.", "design_ref": ref},
                "level_note": note,
                "technique": tech,
            })
        else:
            na.append({"property_id": pid,
                       "reason": NOT_YET.get(pid, "check not built yet in this session (planned, see DESIGN.md section 3); "
                                                  "model checking applies, nothing is claimed until the check exists")})
    m = {
        "version": 1,
        "setup_cmd": "cd /verif && /venv/bin/python -c 'import numba, dask, pyarrow, fsspec; print(\"setup ok\")'",
        "hooks": {
            "guard": "SPATIALPANDAS_VERIF",
            "enable": "no hooks are needed: checks import /repo's working tree directly (PYTHONPATH=$VERIF_REPO) and drive public seams",
            "baseline_off_cmd": "cd /repo && /venv/bin/python -m pytest -ra -q -p no:cacheprovider --timeout=900 --continue-on-collection-errors",
            "source_commits": [],
            "add_only": True,
        },
        "engines": [
            {"name": "E1", "path": "vf/core.py, vf/lattice.py, vf/oracle.py", "serves_properties": [],
             "kind_free_text": "small-scope exhaustive input/configuration enumerator with exact oracles (fork pool)"},
            {"name": "E2", "path": "vf/bfs.py", "serves_properties": [],
             "kind_free_text": "explicit-state BFS over operation histories on the real objects with a reference model"},
            {"name": "E3", "path": "vf/sched.py", "serves_properties": [],
             "kind_free_text": "deviation-bounded controlled schedulers (Dask task scheduler, sys.monitoring thread baton, prange source model)"},
            {"name": "E4", "path": "vf/faultfs.py", "serves_properties": [],
             "kind_free_text": "instrumented fsspec filesystem with exhaustive single/pair fault injection"},
        ],
        "checks": checks,
        "not_applicable": na,
        "notes": "All checks run the real implementation from /repo's working tree (VERIF_REPO overrides). "
                 "Exit 0 held / 1 VIOLATION / 2 harness error. Known findings: /verif/known_findings.json.",
    }
    for e in m["engines"]:
        e["serves_properties"] = [c["property_id"] for c in checks if c["engine"] == e["name"]]
    out = os.path.join(V, "MANIFEST.json")
    open(out, "w").write(json.dumps(m, indent=1) + "\n")
    r = subprocess.run(["python3-vt", "-c", """
import json, jsonschema, sys, glob
m = json.load(open('%s/MANIFEST.json'))
jsonschema.validate(m, json.load(open('/root/.vp/MANIFEST.schema.json')))
es = json.load(open('/root/.vp/EVIDENCE.schema.json'))
for f in sorted(glob.glob('%s/evidence/*.json')):
    jsonschema.validate(json.load(open(f)), es)
    print('evidence ok', f)
print('manifest ok: %%d checks, %%d not_applicable' %% (len(m['checks']), len(m.get('not_applicable', []))))
""" % (V, V)], capture_output=True, text=True)
    print(r.stdout, r.stderr)
    sys.exit(r.returncode)

main()
