#!/bin/bash
# usage: tools/confirm_mutant.sh <PID> <k> [check ids...]
# Confirms agent mutant /tmp/mut/<PID>/mutant<k>.diff in scratch copies of /repo (outside /repo and /verif):
#   demo passes on clean copy, fails on mutated copy, pinned suite still passes on mutated copy,
#   and runs the named quick checks (default <PID>) against the mutated copy.
# On success stores /verif/seeded/<PID>-<k>/{patch.diff,demo.py,notes.md,meta.json}.
PID="$1"; K="$2"; shift 2
PROP="${PID%b}"; PROP="${PROP%c}"          # second / third round directories are named <ID>b, <ID>c
CHECKS="${*:-$PROP}"
SRC=/tmp/mut/$PID
S=${CONFIRM_DIR:-$(mktemp -d /tmp/cm-$PID-$K-XXXXXX)}; mkdir -p "$S"
git -C /repo archive HEAD | tar -x -C "$S"
cd "$S" || exit 3
run_demo() { PYTHONPATH="$S" NUMBA_NUM_THREADS=1 PYTHONDONTWRITEBYTECODE=1 timeout 900 /venv/bin/python "$SRC/demo$K.py" > "$S/.demo.out" 2>&1; echo $?; }
clean_rc=$(run_demo)
git init -q . && git apply --whitespace=nowarn "$SRC/mutant$K.diff" || { echo "CONFIRM $PID-$K PATCH-FAILED"; cd /; rm -rf "$S"; exit 3; }
mut_rc=$(run_demo)
base_out=$(/verif/tools/baseline.py "$S" 2>&1 | head -1)
O=$(mktemp -d /tmp/cmout-XXXXXX)
res=""
for id in $CHECKS; do
  VERIF_REPO="$S" VERIF_OUT="$O" timeout 1800 /verif/check "$id" --tier quick > "$O/$id.log" 2>&1
  rc=$?
  site=$(grep -m1 'site=' "$O/$id.log" | cut -c1-160 | tr '"' "'" | tr -d '\\')
  res="$res{\"check\":\"$id\",\"exit\":$rc,\"first\":\"$site\"},"
done
ok=0
if [ "$clean_rc" = "0" ] && [ "$mut_rc" = "1" ] && echo "$base_out" | grep -q "495/495"; then ok=1; fi
echo "CONFIRM $PID-$K demo_clean=$clean_rc demo_mut=$mut_rc baseline='$base_out' checks=[${res%,}] ok=$ok"
if [ $ok = 1 ]; then
  D=/verif/seeded/$PID-$K; mkdir -p "$D"
  cp "$SRC/mutant$K.diff" "$D/patch.diff"; cp "$SRC/demo$K.py" "$D/demo.py"; cp "$SRC/notes$K.md" "$D/notes.md" 2>/dev/null
  /venv/bin/python - "$D" "$PROP" "$K" "$clean_rc" "$mut_rc" "$base_out" "[${res%,}]" "$PID" <<'PY'
import json, sys, re
d, pid, k, c, m, base, res, mid = sys.argv[1:9]
notes = open(d + "/notes.md").read() if __import__("os").path.exists(d + "/notes.md") else ""
json.dump({"property": pid, "mutant": f"{mid}-{k}", "source": "independent sub-agent (given only the property text and a scratch worktree)",
           "needs_to_manifest": notes[:1500],
           "confirmed": {"repo_head": __import__("subprocess").check_output(["git", "-C", "/repo", "rev-parse", "--short", "HEAD"], text=True).strip(),
                         "demo_exit_clean_tree": int(c), "demo_exit_mutated_tree": int(m), "pinned_suite_on_mutated_tree": base,
                         "commands": ["tools/confirm_mutant.sh %s %s" % (mid, k)]},
           "quick_checks_on_mutated_tree": json.loads(res)}, open(d + "/meta.json", "w"), indent=1)
PY
fi
cd /; rm -rf "$S" "$O"
