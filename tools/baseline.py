#!/venv/bin/python
"""Run the repository's pinned suite in DIR (default /repo) and compare with BASELINE.json stable_pass."""
import json, subprocess, sys, tempfile, os, xml.etree.ElementTree as ET
d = sys.argv[1] if len(sys.argv) > 1 else "/repo"
base = json.load(open("/root/.vp/BASELINE.json"))
want = set(base["stable_pass"])
fd, xml = tempfile.mkstemp(suffix=".xml"); os.close(fd)
env = dict(os.environ); env.pop("PYTHONPATH", None); env["PYTHONDONTWRITEBYTECODE"] = "1"
r = subprocess.run(["/venv/bin/python", "-m", "pytest", "-q", "-p", "no:cacheprovider", "--timeout=900",
                    "--continue-on-collection-errors", "-n", sys.argv[2] if len(sys.argv) > 2 else "0", f"--junitxml={xml}"] ,
                   cwd=d, env=env, capture_output=True, text=True)
if "unrecognized arguments: -n" in r.stderr or "no such option" in r.stderr:
    r = subprocess.run(["/venv/bin/python", "-m", "pytest", "-q", "-p", "no:cacheprovider", "--timeout=900",
                        "--continue-on-collection-errors", f"--junitxml={xml}"], cwd=d, env=env, capture_output=True, text=True)
passed = set()
for tc in ET.parse(xml).getroot().iter("testcase"):
    if not any(c.tag in ("failure", "error", "skipped") for c in tc):
        passed.add(f"{tc.get('classname')}::{tc.get('name')}")
os.unlink(xml)
missing = sorted(want - passed)
print(f"baseline: {len(want & passed)}/{len(want)} stable tests pass in {d}; missing={len(missing)}")
for m in missing[:20]:
    print("  MISSING", m)
print(r.stdout.strip().splitlines()[-1] if r.stdout.strip() else r.stderr[-500:])
sys.exit(1 if missing else 0)
